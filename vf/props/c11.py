"""C11 - shutdown: submit refuses afterwards, idempotent, propagates, joins, returns.

Generated stacks over a manual (recording) base in virtual time, brought to a
workload state (idle / pending / queued / between retries / polling / a blocking
submit parked), then shutdown(wait, cancel_futures) - alone, racing with submit(),
racing with a second shutdown(), or placed inside a worker iteration.  Post-
conditions are evaluated at the moment shutdown() returns."""
import random
import itertools

from .. import instr, harness, stacks
from ..harness import (Sweep, Ctx, ManualExecutor, RecordingExecutor, call, check_common, begin, end, drive, Recorded,
                       UserErrorA, hang_report, wait_done_or_blocked)
from ..instr import LOG, TR, LM, Inconclusive

TITLE = "shutdown"
RULE = ("one execution = one stack (depth 1-4) over a recording manual base in one workload state, one shutdown(wait, "
        "cancel_futures) call, optionally racing with submit() / a second shutdown() at one placement or placed inside a worker "
        "iteration; distinct & non-trivial = (stack, state, arguments, placement site) in which shutdown() was called while work "
        "was pending or another call overlapped it")
REQUIRED = ["line_events", "lock_acquisitions", "vevent_waits"]
SINGLE = ["map", "flat_map", "retry", "poll", "throttle", "timeout", "cos"]
STATES = ["idle", "pending", "queued", "backoff", "polling", "blocked_submit"]
MSG = "cannot schedule new futures after shutdown"


def layer_specs(layers, block=False):
    out = []
    for k, t in enumerate(layers):
        L = {"t": t, "k": k}
        if t == "retry":
            L.update(max_attempts=3, sleep=100.0)
        if t == "throttle":
            L.update(count=1)
        if t == "poll":
            L.update(interval=50.0, mode="never")
        if t == "timeout":
            L.update(timeout=1000.0)
        out.append(L)
    return out


def state_possible(layers, st):
    need = {"queued": "throttle", "backoff": "retry", "polling": "poll", "blocked_submit": "throttle"}.get(st)
    return need is None or need in layers


def cases(tier, seed):
    out = []
    rng = random.Random("c11/%s" % seed)
    pairs = [list(p) for p in itertools.product(SINGLE, SINGLE)]
    triples = [list(p) for p in itertools.product(SINGLE, repeat=3)]
    quads = [list(p) for p in itertools.product(SINGLE, repeat=4)]
    if tier == "quick":
        st = [[t] for t in SINGLE] + rng.sample(pairs, 12) + rng.sample(triples, 8) + rng.sample(quads, 4)
    else:
        st = [[t] for t in SINGLE] + pairs + rng.sample(triples, 100) + rng.sample(quads, 60)
    for extra in (["throttle", "map"], ["throttle", "retry"], ["throttle", "cos", "poll"], ["throttle", "retry", "cos"]):
        if extra not in st:
            st.append(extra)
    for layers in st:
        out.append({"name": "shutdown.state/%s" % ">".join(layers), "kind": "state", "layers": layers})
    cap = 14 if tier == "quick" else None
    sw = [[t] for t in SINGLE] + [["retry", "map"], ["throttle", "retry"], ["poll", "cos"], ["timeout", "throttle"]]
    if tier == "thorough":
        sw += pairs
    for layers in sw:
        for pair in ("shutdown|submit", "submit|shutdown", "shutdown|shutdown", "worker|shutdown", "shutdown|complete"):
            if pair == "worker|shutdown" and not (set(layers) & {"retry", "poll", "throttle", "timeout"}):
                continue
            out.append({"name": "shutdown.race/%s/%s" % (">".join(layers), pair), "kind": "race", "layers": layers, "pair": pair, "cap": cap})
    for layers in (["cos"], ["cos", "map"], ["map", "cos"]):
        for pair in ("shutdown|complete", "shutdown|submit"):
            out.append({"name": "shutdown.race-instr/%s/%s" % (">".join(layers), pair), "kind": "race", "layers": layers, "pair": pair,
                        "cap": None, "gran": "instr"})
    for what in ("resubmit", "submit_plain"):
        out.append({"name": "shutdown.after-timeout-callback/%s" % what, "kind": "tcallback", "form": "executor", "what": what})
    for t in ("retry", "poll", "throttle", "timeout"):
        out.append({"name": "shutdown.from-callback/%s" % t, "kind": "fromcb", "layer": t})
    out.append({"name": "shutdown.real/pool", "kind": "real"})
    out.append({"name": "shutdown.asyncio", "kind": "asyncio"})
    return out


class SW(object):
    def __init__(self, ctx, layers, state, block=False):
        self.ctx, self.layers, self.state = ctx, layers, state
        spec = {"base": "me", "layers": layer_specs(layers)}
        if state == "blocked_submit":
            for L in spec["layers"]:
                if L["t"] == "throttle":
                    L["block"] = True
        self.spec = spec
        self.n0 = len(instr.TRACKED)
        self.b = stacks.build(ctx, spec)
        self.me, self.top = self.b.base, self.b.top
        self.executors = [e for e in self.b.executors if e is not self.b.base]
        self.threads = [t for t in instr.TRACKED[self.n0:]]
        self.futs = []
        self.parked = None
        self.sd_results = []
        self.submit_results = []
        self.fn = Recorded("job", lambda idx: None)

    def submit(self, who="H"):
        try:
            f = call("submit", self.top.submit, self.fn, _tag=who)
            self.futs.append(f)
            self.submit_results.append((who, "future", None))
            return f
        except instr.DeadlockBroken:
            raise
        except BaseException as e:
            self.submit_results.append((who, "raised", e))
            return None

    def to_state(self):
        st = self.state
        if st == "idle":
            return True
        self.submit()
        self.submit()
        instr.advance(0.05)
        if st == "pending":
            return bool(self.me.pending())
        if st == "queued":
            return len(self.me.items) < 2
        if st == "backoff":
            for k in self.me.pending():
                self.me.fail(k, UserErrorA("x"))
            instr.advance(0.05)
            return not all(f.done() for f in self.futs)
        if st == "polling":
            for k in self.me.pending():
                self.me.complete(k, 1)
            instr.advance(0.05)
            return not all(f.done() for f in self.futs)
        if st == "blocked_submit":
            # queue full (count=1: one in flight, one queued): further submits park - the caller's thread
            # when the blocking throttle is the outer layer, a library worker (e.g. the retry submit
            # thread handing over to a blocking throttle below it) otherwise
            def worker_in_blocking_submit():
                # a library thread parked in the blocking throttle's wait (the submit thread's own fallback wait
                # is 30 s too, so look at who is inside ThrottleExecutor.submit)
                import sys as _sys
                frames = _sys._current_frames()
                for t in instr.TRACKED:
                    f = frames.get(t.ident)
                    while f is not None:
                        if f.f_code.co_name == "_block_until_ready":
                            return True
                        f = f.f_back
                return False
            for k in range(3):
                a = self.ctx.actor("B%d" % k, self.submit, "blocked%d" % k).go()
                s = wait_done_or_blocked(a, grace=2.0)
                if s in ("parked", "blocked"):
                    self.parked = a
                    return True
                instr.settle()
                if worker_in_blocking_submit():
                    return True
            return False
        return False

    def shutdown(self, wait, kw, who="S"):
        try:
            call("shutdown", self.top.shutdown, wait, _tag=who, **kw)
        except instr.DeadlockBroken:
            raise
        except BaseException as e:
            self.sd_results.append((who, e, None))
            return
        # post-conditions observed at the instant shutdown() returned
        alive = [t.vf_role for t in self.threads if t.vf_started and t.is_alive() and not t.vf_finished]
        self.sd_results.append((who, None, {"alive": alive, "base_shutdowns": list(self.me.shutdowns), "seq": LOG.add("shutdown.returned", who=who)}))

    def judge(self, res, label, wait, kw, site=None, concurrent_shutdowns=1):
        where = "%s wait=%s kw=%s placement=%s" % (label, wait, kw, site)
        for (who, err, post) in self.sd_results:
            if err is not None:
                res.violation("shutdown-raised/%s" % type(err).__name__, "%s: shutdown() raised %r" % (where, err))
        posts = [p for (_, e, p) in self.sd_results if p]
        if not posts:
            return
        # exactly one shutdown at the base, with the caller's arguments
        base = list(self.me.shutdowns)
        if len(base) != 1:
            res.violation("base-shutdown-count/%d" % len(base), "%s: the wrapped base executor received %d shutdown() calls: %s" % (where, len(base), base))
        elif base[0] != (wait, dict(kw)):
            res.violation("base-shutdown-args", "%s: base executor was shut down with %s, caller passed wait=%s %s" % (where, base[0], wait, kw))
        for p in posts:
            if not p["base_shutdowns"] and concurrent_shutdowns == 1:
                res.violation("base-not-shut-down-at-return", "%s: shutdown() returned before the base executor was shut down" % where)
            if wait and p["alive"] and concurrent_shutdowns == 1:
                res.violation("worker-alive-after-wait", "%s: shutdown(wait=True) returned while %s still alive" % (where, p["alive"]))
        # submit afterwards refuses - through every entry point that submits (on every executor of the stack that was
        # shut down by this call, i.e. all of them)
        entries = [("submit", lambda: self.top.submit(self.fn))]
        for ex in getattr(self, "executors", None) or [self.top]:
            if hasattr(ex, "submit_retry"):
                entries.append(("submit_retry", lambda ex=ex: ex.submit_retry(instr.ME.retry.RetryPolicy(), self.fn)))
            if hasattr(ex, "submit_timeout"):
                entries.append(("submit_timeout", lambda ex=ex: ex.submit_timeout(5.0, self.fn)))
        for ename, entry in entries:
            try:
                entry()
                res.violation("submit-after-shutdown-accepted" + ("" if ename == "submit" else "/" + ename),
                              "%s: %s() after shutdown() returned a future" % (where, ename))
            except RuntimeError as e:
                if str(e) != MSG:
                    res.violation("submit-after-shutdown-message", "%s: %s() after shutdown raised RuntimeError(%r)" % (where, ename, str(e)))
            except instr.DeadlockBroken:
                raise
            except BaseException as e:
                res.violation("submit-after-shutdown-wrong-error/%s" % type(e).__name__, "%s: %s() after shutdown raised %r" % (where, ename, e))
        # repeated shutdown harmless
        n = len(self.me.shutdowns)
        try:
            self.top.shutdown(wait, **kw)
            self.top.shutdown(not wait)
        except instr.DeadlockBroken:
            raise
        except BaseException as e:
            res.violation("repeated-shutdown-raised/%s" % type(e).__name__, "%s: second shutdown() raised %r" % (where, e))
        if len(self.me.shutdowns) != n:
            res.violation("repeated-shutdown-propagated", "%s: repeated shutdown() reached the base executor again" % where)
        # racing submits: RuntimeError(MSG) or a future
        for (who, kind, e) in self.submit_results:
            if kind == "raised" and not (isinstance(e, RuntimeError) and str(e) == MSG) and not isinstance(e, instr.CaseAbort):
                res.violation("racing-submit-wrong-error/%s" % type(e).__name__, "%s: submit() (%s) raised %r" % (where, who, e))


def classify_wait(actor, w):
    """What is the hanging shutdown() waiting for?  gate:<layer>/<own|above-blocking-throttle>,
    future-lock, executor-lock:<layer>, join:<thread>, other."""
    with instr.MU:
        lk = instr.LM.waiting.get(actor.ident)
        th = instr.LM.joining.get(actor.ident)
    layers = w.layers
    it = layers.index("throttle") if "throttle" in layers else -1
    if th is not None:
        return "join:%s" % th.name.split("-")[0]
    if lk is None:
        return "other"
    for idx, ex in enumerate(w.b.executors[1:]):
        helper = getattr(ex, "_shutdown", None)
        if helper is not None and getattr(helper, "_lock", None) is lk:
            return "gate:%s/%s" % (layers[idx], "own" if idx == it else ("above-blocking-throttle" if idx > it else "below"))
        for attr in ("_lock", "_jobs_lock"):
            if getattr(ex, attr, None) is lk:
                return "executor-lock:%s" % layers[idx]
    if "_Future" in lk.label:
        return "future-lock"
    return "lock:%s" % lk.label


def run_state(case, res):
    layers = case["layers"]
    for state in STATES:
        if not state_possible(layers, state):
            continue
        for wait in (True, False):
            for kw in ({}, {"cancel_futures": True}, {"cancel_futures": False}):
                begin("vt")
                ctx = Ctx()
                try:
                    w = SW(ctx, layers, state)
                    if not w.to_state():
                        res.count("state_not_reached")
                        continue
                    a = ctx.actor("S", w.shutdown, wait, kw).go()
                    why = drive([a], res, use_time=False)
                    label = "state/%s/%s" % (">".join(layers), state)
                    res.execs += 1
                    check_common(res)
                    if LM.deadlocks:
                        harness.mark_recycle()
                        return
                    if why != "ok":
                        key = state
                        if state == "blocked_submit":
                            # is the blocking throttle the outermost layer, or do layers above it hold their own gate too?
                            key += "/" + classify_wait(a, w)
                        res.violation("shutdown-hang/%s" % key, "%s wait=%s: shutdown() did not return: %s" % (label, wait, instr.describe_threads()),
                                      stacks=hang_report(ctx.actors))
                        if state != "blocked_submit":
                            harness.mark_recycle()
                            return
                        continue  # teardown unwinds the parked submit; go on with the other combinations
                    w.judge(res, label, wait, kw)
                    res.key(label, wait, str(kw))
                    res.sample({"stack": layers, "state": state, "wait": wait, "kwargs": kw, "base_saw": w.me.shutdowns,
                                "threads_alive_at_return": w.sd_results[0][2]["alive"] if w.sd_results and w.sd_results[0][2] else None}, limit=2)
                finally:
                    end(ctx)


class RScenario(object):
    def __init__(self, case, wait, state):
        self.case, self.wait, self.state = case, wait, state
        self.layers = case["layers"]
        self.a, self.b = case["pair"].split("|")

    def setup(self):
        ctx = Ctx()
        w = SW(ctx, self.layers, self.state)
        ctx.w = w
        ctx.ok = w.to_state()
        return ctx

    def op(self, ctx, what, who):
        w = ctx.w
        if what == "shutdown":
            w.shutdown(self.wait, {}, who)
        elif what == "submit":
            w.submit(who)
        elif what == "complete":
            p = w.me.pending()
            if p:
                w.me.complete(p[0], 1)

    def victim_role(self, ctx):
        if self.a == "worker":
            return ctx.w.threads[-1].vf_role
        return "V"

    def start_victim(self, ctx):
        if self.a == "worker":
            def trig():
                self.op(ctx, "complete", "T")
                self.op(ctx, "submit", "T")
            return ctx.actor("T", trig).go()
        return ctx.actor("V", self.op, ctx, self.a, "V").go()

    def intervene(self, ctx):
        self.op(ctx, self.b, "I")

    use_time = False

    def hang_key(self, ctx, stuck):
        return "shutdown-race/%s" % self.case["pair"]

    def finish(self, ctx):
        if not ctx.w.sd_results:
            a = ctx.actor("S2", ctx.w.shutdown, self.wait, {}, "S2").go()
            if drive([a], use_time=False) != "ok":
                ctx.hang = True

    def oracle(self, ctx, res, info):
        if not ctx.ok:
            return
        label = "race/%s/%s/%s" % (">".join(self.layers), self.case["pair"], self.state)
        if getattr(ctx, "hang", False):
            res.violation("shutdown-hang/after-race", "%s: shutdown() did not return" % label)
            harness.mark_recycle()
            return
        n_sd = 2 if self.case["pair"] == "shutdown|shutdown" else 1
        ctx.w.judge(res, label, self.wait, {}, info.get("site"), concurrent_shutdowns=n_sd)
        if info.get("hit"):
            res.key(label, self.wait, info.get("site"))


def run_race(case, res):
    rng = random.Random("c11/%s/%s" % (case["seed"], case["name"]))
    for state in ("pending", "idle"):
        for wait in (True, False):
            Sweep(RScenario(case, wait, state), res, "vt", case["name"], gran=case.get("gran")).run(case["cap"], rng, per_site=1)
            if harness.need_recycle():
                return


def run_fromcb(case, res):
    """Further shutdown() calls are harmless from any thread - including the executor's own worker
    thread: a done-callback running there calls shutdown() after somebody else has shut the executor
    down (real time; the callback is held until the first shutdown has returned)."""
    t = case["layer"]
    for rep in range(3):
        begin("rt")
        ctx = Ctx()
        try:
            L = {"t": t, "k": 0}
            if t == "retry":
                L.update(max_attempts=2, sleep=0)
            if t == "poll":
                L.update(interval=0.01)
            if t == "throttle":
                L.update(count=1)
            if t == "timeout":
                L.update(timeout=0.05)
            base = "me" if t in ("poll", "timeout") else "me_inline"
            b = stacks.build(ctx, {"base": base, "layers": [L]})
            errors = []
            ran = {"on": None}
            registered, started, go = instr._RealEvent(), instr._RealEvent(), instr._RealEvent()

            def cb(_f):
                ran["on"] = instr.current_role()
                started.set()
                go.wait(10)
                try:
                    b.top.shutdown(True)
                    b.top.shutdown(False)
                except instr.DeadlockBroken:
                    raise
                except BaseException as e:
                    errors.append(e)

            def job():
                registered.wait(5)
                return 1

            def client():
                f = b.top.submit(job)
                f.add_done_callback(cb)
                registered.set()
                return f
            a = ctx.actor("C", client).go()
            if t == "poll":
                import time as _t
                _t.sleep(0.05)
                for k in b.base.pending():
                    b.base.run(k)
            ok = started.wait(5)
            s = ctx.actor("S", b.top.shutdown, False).go()
            drive([s], timeout=20)
            go.set()
            drive([a], timeout=20)
            import time as _t
            _t.sleep(0.05)
            res.execs += 1
            check_common(res)
            label = "%s (callback ran on %s)" % (case["name"], ran["on"])
            for e in errors:
                res.violation("repeated-shutdown-raised/%s/from-worker-callback" % type(e).__name__,
                              "%s: shutdown() inside a done-callback, after the executor had been shut down, raised %r" % (label, e))
            if ok and ran["on"] and ran["on"].startswith("W:"):
                res.key("fromcb", t, rep)
                res.count("callbacks_on_worker_thread")
        finally:
            end(ctx)


def run_real(case, res):
    """Thread-pool base wrapped by a RecordingExecutor, a callable running on a pool
    thread at shutdown time and released afterwards (real time)."""
    ME = instr.ME
    rng = random.Random("c11real/%s" % case["seed"])
    for it in range(12):
        begin("rt")
        ctx = Ctx()
        try:
            layers = [rng.choice(SINGLE) for _ in range(rng.randint(1, 3))]
            spec = {"base": "pool", "workers": 2, "layers": layer_specs(layers)}
            for L in spec["layers"]:
                if L["t"] == "retry":
                    L["sleep"] = 0
                if L["t"] == "poll":
                    L["interval"], L["mode"] = 0.005, "first"
            pool = ME.Executors.thread_pool(max_workers=2)
            rec = RecordingExecutor(pool, "base")
            ctx.own(rec)
            n0 = len(instr.TRACKED)
            b = stacks.build(ctx, spec, base_executor=rec)
            threads = instr.TRACKED[n0:]
            gate = instr._RealEvent()
            started = instr._RealEvent()

            def job():
                started.set()
                gate.wait(20)
                return 1
            f = b.top.submit(job)
            started.wait(10)
            wait = rng.random() < 0.6
            kw = rng.choice([{}, {"cancel_futures": True}])
            done = {}

            def sd():
                b.top.shutdown(wait, **kw)
                done["alive"] = [t.vf_role for t in threads if t.is_alive()]
            a = ctx.actor("S", sd).go()
            import time as _t
            _t.sleep(0.02)
            gate.set()
            why = drive([a], timeout=30)
            res.execs += 1
            check_common(res)
            label = "real/%s wait=%s kw=%s" % (">".join(layers), wait, kw)
            if why != "ok":
                res.violation("shutdown-hang/real", "%s: shutdown() did not return within 30 s" % label, stacks=hang_report(ctx.actors))
                harness.mark_recycle()
                return
            if a.error is not None:
                res.violation("shutdown-raised/%s" % type(a.error).__name__, "%s: %r" % (label, a.error))
            if rec.shutdowns != [(wait, kw)]:
                res.violation("base-shutdown-args" if len(rec.shutdowns) == 1 else "base-shutdown-count/%d" % len(rec.shutdowns),
                              "%s: base saw %s" % (label, rec.shutdowns))
            if wait and done.get("alive"):
                res.violation("worker-alive-after-wait", "%s: %s alive after shutdown(wait=True)" % (label, done["alive"]))
            try:
                b.top.submit(job)
                res.violation("submit-after-shutdown-accepted", "%s: submit after shutdown accepted" % label)
            except RuntimeError as e:
                if str(e) != MSG:
                    res.violation("submit-after-shutdown-message", "%s: RuntimeError(%r)" % (label, str(e)))
            res.key("real", ">".join(layers), wait, str(kw))
        finally:
            end(ctx)


def run_asyncio(case, res):
    import asyncio
    ME = instr.ME
    for wait in (True, False):
        begin("rt")
        ctx = Ctx()
        loop = asyncio.new_event_loop()
        try:
            rec = RecordingExecutor(ME.Executors.sync(), "base")
            ex = ME.Executors.with_asyncio(rec, loop=loop)
            ctx.own(rec)
            f = ex.submit(lambda: 1)
            ex.shutdown(wait)
            res.execs += 1
            if rec.shutdowns != [(wait, {})]:
                res.violation("base-shutdown-count/%d" % len(rec.shutdowns), "asyncio: base saw %s" % (rec.shutdowns,))
            try:
                ex.submit(lambda: 2)
                res.violation("submit-after-shutdown-accepted", "asyncio: submit after shutdown accepted")
            except RuntimeError as e:
                if str(e) != MSG:
                    res.violation("submit-after-shutdown-message", "asyncio: RuntimeError(%r)" % str(e))
            ex.shutdown(wait)
            if len(rec.shutdowns) != 1:
                res.violation("repeated-shutdown-propagated", "asyncio: repeated shutdown reached the base")
            res.key("asyncio", wait)
            # an executor without a configured loop, shut down, then used from a thread that has no event loop
            rec2 = RecordingExecutor(ME.Executors.sync(), "base2")
            ex2 = ME.Executors.with_asyncio(rec2)
            ctx.own(rec2)
            ex2.shutdown(wait)
            box = {}

            def late():
                try:
                    ex2.submit(lambda: 3)
                    box["r"] = "accepted"
                except BaseException as e:
                    box["r"] = e
            a = ctx.actor("L", late).go()
            drive([a], timeout=10)
            r = box.get("r")
            res.execs += 1
            if r == "accepted":
                res.violation("submit-after-shutdown-accepted", "asyncio (no loop configured): submit after shutdown accepted")
            elif not (isinstance(r, RuntimeError) and str(r) == MSG):
                res.violation("submit-after-shutdown-message", "asyncio (no loop configured, caller thread without event loop): submit() after shutdown raised %r" % (r,))
            if rec2.submits:
                res.violation("submit-after-shutdown-reached-delegate", "asyncio: the delegate received a submit after shutdown")
            res.key("asyncio-noloop", wait)
        finally:
            loop.close()
            end(ctx)


def run_case(case, res):
    k = case["kind"]
    if k == "tcallback":
        # (C09's scenario: a timed-out future's callback uses the executor again; here what matters is that the executor
        # still shuts down afterwards - tear-down shuts it down with wait=True and a stuck worker is reported)
        from . import c09
        return c09.run_tcallback(case, res)
    if k == "state":
        run_state(case, res)
    elif k == "race":
        run_race(case, res)
    elif k == "fromcb":
        run_fromcb(case, res)
    elif k == "real":
        run_real(case, res)
    else:
        run_asyncio(case, res)
