"""C05 - retry: exact attempt accounting, sequential attempts, exact back-off.

RetryExecutor over a manual delegate in virtual time.  Every attempt's arrival at
the delegate and its end (performed by the harness from the submission's outcome
script) carry virtual timestamps; policy methods are recorded.  Oracle =
``retry_model`` written from the property statement."""
import random

from .. import instr, harness
from ..harness import (Sweep, Ctx, ManualExecutor, call, check_common, begin, end, drive, Recorded,
                       UserError, UserErrorA, UserErrorB, OtherError, outcome, outcome_repr)
from ..instr import LOG, TR, LM, Inconclusive

TITLE = "retry accounting and back-off"
RULE = ("one execution = one RetryExecutor over a manual delegate with 1-6 concurrently retrying submissions, each with a "
        "generated outcome script and attempt duration, under a generated ExceptionRetryPolicy (max_attempts, sleep, exponent, "
        "max_sleep, exception_base on a grid) or a custom policy (retry-on-value, table delays, raising at call j), or one "
        "placement of a second action inside the submit thread / delegate callback; distinct & non-trivial = (policy, scripts | "
        "placement site) with at least one retry granted")
REQUIRED = ["line_events", "lock_acquisitions", "vevent_waits", "timers_fired", "clock_reads"]
EPS = 0.02
class UserBase(BaseException):
    """an outcome that is not an Exception (like SystemExit / KeyboardInterrupt raised by the callable)"""


CLASSES = {"A": UserErrorA, "B": UserErrorB, "O": OtherError, "X": UserBase}
BASES = {"Exception": Exception, "UserError": UserError, "A": UserErrorA, "A+O": [UserErrorA, OtherError]}


def cases(tier, seed):
    out = []
    n = 90 if tier == "quick" else 20000
    for i in range(n):
        out.append({"name": "retry.script/%d" % i, "kind": "gen", "idx": i})
    # three or four submissions in back-off at the same time, due in every order relative to their queue position
    import itertools as _it
    for k, perm in enumerate(_it.permutations([0.3, 1.5, 0.6])):
        out.append({"name": "retry.waiters/3/%d" % k, "kind": "waiters", "delays": list(perm)})
    for k, perm in enumerate(list(_it.permutations([0.3, 1.5, 0.6, 1.0]))[::3]):
        out.append({"name": "retry.waiters/4/%d" % k, "kind": "waiters", "delays": list(perm)})
    cap = None
    for victim, trig in (("worker", "fail0"), ("worker", "submit"), ("client", "fail0"), ("client", "complete1"), ("client", "submit")):
        for second in ("complete1", "fail1", "submit", "timer", "fail0"):
            if trig == second and trig != "submit":
                continue
            out.append({"name": "retry.sweep/%s/%s|%s" % (victim, trig, second), "kind": "sweep", "victim": victim,
                        "trigger": trig, "second": second, "cap": cap})
            if trig == "fail0":
                # the same with submission 0 already in its second attempt: its next back-off (1.0 s) is longer than the
                # first back-off (0.5 s) of a submission failing meanwhile
                out.append({"name": "retry.sweep-deep/%s/%s|%s" % (victim, trig, second), "kind": "sweep", "victim": victim,
                            "trigger": trig, "second": second, "cap": cap, "deep": True})
    # the worker scans its job list (woken by the back-off timer of a later entry) while an earlier entry ends for good
    # on a delegate thread and is removed from the list
    for second in ("complete0", "fail1", "submit"):
        for gran in (None, "instr"):
            out.append({"name": "retry.sweep-scan%s/worker/timer|%s" % ("-instr" if gran else "", second), "kind": "sweep", "victim": "worker",
                        "trigger": "timer", "second": second, "cap": cap, "popscan": True, "gran": gran})
    return out


def gen_policy(rng):
    if rng.random() < 0.65:
        return {"kind": "exc", "max_attempts": rng.choice([1, 2, 3, 4, 6]), "sleep": rng.choice([0, 0.125, 0.5, 1.0, 2.0]),
                "exponent": rng.choice([1.0, 1.5, 2.0, 3.0]), "max_sleep": rng.choice([0.25, 1.0, 4.0, 120]),
                "base": rng.choice(list(BASES))}
    pol = {"kind": "custom", "delays": [rng.choice([0, 0.125, 0.25, 1.0, 3.0]) for _ in range(6)],
           "max_attempts": rng.choice([2, 3, 5]), "retry_on_value": rng.random() < 0.4,
           "raise_in": rng.choice([None, None, "should_retry", "sleep_time"]), "raise_at": rng.choice([1, 2, 3])}
    if rng.random() < 0.5:
        # every submission has its own back-off table (e.g. a Retry-After taken from the failure)
        pol["per_sub_delays"] = [[rng.choice([0.125, 0.25, 0.6, 1.0, 1.5, 3.0]) for _ in range(6)] for _ in range(4)]
        pol["raise_in"] = None
    return pol


def gen_script(rng, policy):
    n = rng.choice([0, 1, 1, 2, 3, 5])
    steps = []
    for _ in range(n):
        if policy["kind"] == "custom" and policy["retry_on_value"] and rng.random() < 0.5:
            steps.append(("again",))
        else:
            steps.append(("raise", rng.choice("AAB" + ("O" if policy["kind"] == "exc" else ""))))
    steps.append(("ret",) if rng.random() < 0.7 else ("raise", rng.choice("ABX")))
    return steps


def model(policy, steps):
    """-> (number of attempts, [delay after attempt k for each granted retry], index of final attempt,
    expected should_retry attempt args, expected sleep_time attempt args)"""
    delays = []
    sr_calls = []
    st_calls = []
    k = 0
    while True:
        st = steps[min(k, len(steps) - 1)]
        k += 1  # attempt number
        if policy["kind"] == "exc":
            if st[0] != "raise":
                break
            if k >= policy["max_attempts"]:
                break
            b = BASES[policy["base"]]
            b = b if isinstance(b, list) else [b]
            if not any(issubclass(CLASSES[st[1]], x) for x in b):
                break
            delays.append(min(policy["sleep"] * (policy["exponent"] ** (k - 1)), policy["max_sleep"]))
        else:
            sr_calls.append(k)
            if policy["raise_in"] == "should_retry" and len(sr_calls) == policy["raise_at"]:
                break
            want = (st[0] == "raise") or (st[0] == "again")
            if not want or k >= policy["max_attempts"]:
                break
            st_calls.append(k)
            if policy["raise_in"] == "sleep_time" and len(st_calls) == policy["raise_at"]:
                break
            delays.append(policy["delays"][min(k - 1, 5)])
    return k, delays, sr_calls, st_calls


class RW(object):
    def __init__(self, ctx, policy, scripts, durs):
        ME = instr.ME
        self.ctx = ctx
        self.policy = policy
        self.me = ManualExecutor("me")
        ctx.own(self.me)
        self.scripts = scripts
        self.durs = durs
        self.subs = []
        self.escaped = []
        self.pol_objs = []
        self.sub_policies = {}
        if policy["kind"] == "exc":
            self.ex = ctx.own(ME.Executors.with_retry(
                self.me, max_attempts=policy["max_attempts"], sleep=policy["sleep"], exponent=policy["exponent"],
                max_sleep=policy["max_sleep"], exception_base=BASES[policy["base"]]))
        else:
            self.ex = ctx.own(ME.Executors.with_retry(self.me, self.make_policy(None)))
        self.t0 = instr.vnow()

    def pol_of(self, sid):
        """Policy parameters of one submission (custom policies are per submission: delays may differ)."""
        if self.policy["kind"] == "custom" and self.policy.get("per_sub_delays") and sid is not None:
            if sid not in self.sub_policies:
                tables = self.policy["per_sub_delays"]
                self.sub_policies[sid] = dict(self.policy, delays=tables[sid % len(tables)])
            return self.sub_policies[sid]
        return self.policy

    def make_policy(self, sid):
        ME = instr.ME
        policy = self.pol_of(sid)
        w = self
        counters = {"sr": 0, "st": 0}

        seen = {"sr": {}, "st": {}}

        def sr(idx, attempt, future):
            counters["sr"] += 1
            seen["sr"][attempt] = (future, future.done())
            if policy["raise_in"] == "should_retry" and counters["sr"] == policy["raise_at"]:
                raise UserErrorB("policy.should_retry")
            if attempt >= policy["max_attempts"]:
                return False
            if future.exception() is not None:
                return True
            return future.result() == "again"

        def st(idx, attempt, future):
            counters["st"] += 1
            seen["st"][attempt] = (future, future.done())
            if policy["raise_in"] == "sleep_time" and counters["st"] == policy["raise_at"]:
                raise UserErrorB("policy.sleep_time")
            return policy["delays"][min(attempt - 1, 5)]

        rsr = Recorded("should_retry%s" % sid, sr)
        rst = Recorded("sleep_time%s" % sid, st)

        class P(ME.retry.RetryPolicy):
            def should_retry(self, attempt, future):
                return rsr(attempt, future)

            def sleep_time(self, attempt, future):
                return rst(attempt, future)
        p = P()
        p.rsr, p.rst = rsr, rst
        p.seen = seen
        return p

    def submit(self, sid=None):
        sid = len(self.subs) if sid is None else sid
        rec = {"sid": sid, "attempts": [], "raised": [], "cb": [], "fn": Recorded("job%d" % sid, lambda idx: None)}
        self.subs.append(rec)
        if self.policy["kind"] == "custom":
            p = self.make_policy(sid)
            rec["pol"] = p
            f = call("submit_retry", self.ex.submit_retry, p, rec["fn"], _tag=sid)
        else:
            f = call("submit", self.ex.submit, rec["fn"], _tag=sid)
        rec["fut"] = f
        f.add_done_callback(lambda _f, rec=rec: rec["cb"].append((LOG.add("cb", sid=rec["sid"]), instr.vnow())))
        return rec

    def scan(self):
        """Register newly arrived delegate items as attempts."""
        arrivals = {e[4]["idx"]: (e[0], e[1]) for e in LOG.select("me.submit")}
        for k, it in enumerate(self.me.items):
            fid = getattr(it[1], "vf_id", "")
            if not fid.startswith("job"):
                continue
            rec = self.subs[int(fid[3:])]
            if any(a["item"] == k for a in rec["attempts"]):
                continue
            if k not in arrivals:
                continue  # the delegate's submit() is still in progress on another thread: next scan
            s, vt = arrivals[k]
            n = len(rec["attempts"])
            rec["attempts"].append({"item": k, "arr_seq": s, "arr_t": vt, "due": vt + self.durs[rec["sid"]], "end_seq": None,
                                    "end_t": None, "n": n + 1})

    def open_attempts(self):
        self.scan()
        out = []
        for rec in self.subs:
            for a in rec["attempts"]:
                if a["end_seq"] is None and not self.me.fut(a["item"]).done():
                    out.append((a["due"], rec, a))
        return sorted(out, key=lambda x: (x[0], x[1]["sid"]))

    def finish_attempt(self, rec, a):
        st = self.scripts[rec["sid"]][min(a["n"] - 1, len(self.scripts[rec["sid"]]) - 1)]
        a["end_t"] = instr.vnow()
        a["step"] = st
        try:
            self._end_attempt(rec, a, st)
        except (instr.DeadlockBroken, instr.CaseAbort):
            raise
        except BaseException as e:
            # the library's done-callback let an exception escape into the thread completing the delegate future
            self.escaped.append((rec["sid"], a["n"], e))
        a["after_seq"] = LOG.add("attempt.end.ret", sid=rec["sid"], n=a["n"])

    def _end_attempt(self, rec, a, st):
        if st[0] == "ret":
            a["end_seq"] = LOG.add("attempt.end", sid=rec["sid"], n=a["n"], how="ret")
            self.me.complete(a["item"], ("v", rec["sid"], a["n"]))
        elif st[0] == "again":
            a["end_seq"] = LOG.add("attempt.end", sid=rec["sid"], n=a["n"], how="again")
            self.me.complete(a["item"], "again")
        else:
            e = CLASSES[st[1]]("sid%d#%d" % (rec["sid"], a["n"]))
            a["exc"] = e
            a["end_seq"] = LOG.add("attempt.end", sid=rec["sid"], n=a["n"], how="raise")
            self.me.fail(a["item"], e)

    def run(self, horizon=400.0):
        limit = instr.vnow() + horizon
        for _ in range(400):
            instr.advance(0.0)
            if LM.deadlocks:
                return
            opn = self.open_attempts()
            if opn:
                due, rec, a = opn[0]
                if due > instr.vnow():
                    instr.advance(until=due)
                    if self.open_attempts()[0][2] is not a:
                        continue
                self.finish_attempt(rec, a)
                continue
            if all(r["fut"].done() for r in self.subs):
                break
            timers = instr.pending_timers()
            if not timers or timers[0] > limit:
                break
            instr.advance(until=timers[0])
        instr.advance(0.5)

    def judge(self, res, label, info=None):
        site = info.get("site") if info else None
        self.scan()
        granted = 0
        pol = self.policy
        for (sid, n, e) in self.escaped:
            res.violation("callback-raised-into-delegate/%s" % type(e).__name__,
                          "%s sub %d: ending attempt %d let %r escape from the library's done-callback into the completing thread" % (label, sid, n, e))
        for rec in self.subs:
            steps = self.scripts[rec["sid"]]
            n_exp, delays, sr_exp, st_exp = model(self.pol_of(rec["sid"]), steps)
            atts = rec["attempts"]
            sid = rec["sid"]
            where = "%s sub %d placement=%s" % (label, sid, site)
            cancelled = rec["fut"].cancelled()
            if len(atts) != n_exp and not cancelled:
                res.violation("attempt-count/%s" % ("more" if len(atts) > n_exp else "fewer"),
                              "%s: callable handed to the delegate %d times, model says %d (policy %s, script %s)"
                              % (where, len(atts), n_exp, pol, steps))
            for k in range(1, len(atts)):
                prev, cur = atts[k - 1], atts[k]
                if prev["end_seq"] is None or cur["arr_seq"] < prev["end_seq"]:
                    res.violation("overlapping-attempts", "%s: attempt %d reached the delegate before attempt %d ended" % (where, k + 1, k))
                    continue
                if k - 1 < len(delays):
                    granted += 1
                    gap = cur["arr_t"] - prev["end_t"]
                    want = delays[k - 1]
                    if gap < want - 1e-9:
                        res.violation("backoff/early", "%s: attempt %d started %.4fs after attempt %d ended, policy delay %.4fs"
                                      % (where, k + 1, gap, k, want))
                    elif gap > want + EPS:
                        res.violation("backoff/late", "%s: attempt %d started %.4fs after attempt %d ended, policy delay %.4fs (%.3fs late)"
                                      % (where, k + 1, gap, k, want, gap - want))
            # policy consultation
            if pol["kind"] == "custom" and not cancelled:
                p = rec["pol"]
                sr_got = [c["args"][0] for c in p.rsr.calls]
                st_got = [c["args"][0] for c in p.rst.calls]
                if sr_got != sr_exp:
                    res.violation("policy-consultation/should_retry", "%s: should_retry called with attempts %s, expected %s" % (where, sr_got, sr_exp))
                if st_got != st_exp:
                    res.violation("policy-consultation/sleep_time", "%s: sleep_time called with attempts %s, expected %s" % (where, st_got, st_exp))
                # both policy functions are asked about the finished attempt: its (done) future
                for which in ("sr", "st"):
                    for attempt, (fut, was_done) in sorted(p.seen[which].items()):
                        a = atts[attempt - 1] if 0 < attempt <= len(atts) else None
                        dfut = self.me.fut(a["item"]) if a else None
                        if not was_done or (dfut is not None and fut is not dfut):
                            res.violation("policy-consultation/%s-future" % {"sr": "should_retry", "st": "sleep_time"}[which],
                                          "%s: %s(attempt=%d, future) was given %s (done=%s), not the finished attempt's future"
                                          % (where, {"sr": "should_retry", "st": "sleep_time"}[which], attempt, type(fut).__name__, was_done))
                            break
            # final outcome and callback timing
            if cancelled or not atts:
                continue
            final = atts[min(n_exp, len(atts)) - 1]
            o = outcome(rec["fut"])
            if o[0] == "pending":
                res.violation("retry-future-pending", "%s: future still pending after the final attempt (%d) ended" % (where, final["n"]))
                continue
            st = final.get("step")
            if st is not None:
                if st[0] == "raise":
                    if o[0] != "exc" or o[1] is not final.get("exc"):
                        res.violation("final-outcome/wrong-exception", "%s: future has %s, final attempt raised %r (identity required)"
                                      % (where, outcome_repr(o), final.get("exc")))
                else:
                    want = ("v", sid, final["n"]) if st[0] == "ret" else "again"
                    if o != ("value", want):
                        res.violation("final-outcome/wrong-value", "%s: future has %s, final attempt returned %r" % (where, outcome_repr(o), want))
            if len(rec["cb"]) != 1:
                res.violation("callback-count/%d" % len(rec["cb"]), "%s: done-callback ran %d times" % (where, len(rec["cb"])))
            elif final["end_seq"] is not None and rec["cb"][0][0] < final["end_seq"]:
                res.violation("done-before-final-attempt", "%s: done-callback fired (seq %d) before the final attempt ended (seq %d)"
                              % (where, rec["cb"][0][0], final["end_seq"]))
            elif final["end_t"] is not None and rec["cb"][0][1] > final["end_t"] + EPS:
                res.violation("done-late", "%s: future resolved %.3fs after the final attempt ended" % (where, rec["cb"][0][1] - final["end_t"]))
        res.count("submissions_judged", len(self.subs))
        res.count("retries_granted", granted)
        return granted


def run_gen(case, res):
    rng = random.Random("c05/%s/%s" % (case["seed"], case["idx"]))
    begin("vt")
    ctx = Ctx()
    try:
        policy = gen_policy(rng)
        n = rng.choice([1, 1, 2, 3, 6])
        scripts = [gen_script(rng, policy) for _ in range(n)]
        durs = [rng.choice([0, 0, 0.125, 0.375, 1.0]) for _ in range(n)]
        w = RW(ctx, policy, scripts, durs)
        stagger = rng.choice([0, 0, 0.125])
        for i in range(n):
            a = ctx.actor("S%d" % (i % 3), w.submit).go()
            if drive([a], use_time=False) != "ok" or a.error is not None:
                raise Inconclusive("submit failed: %r" % (a.error,))
            if stagger:
                instr.advance(stagger)
        w.run()
        res.execs += 1
        check_common(res)
        if LM.deadlocks:
            return
        g = w.judge(res, case["name"])
        if g:
            res.key(str(sorted(policy.items())), str(scripts))
        res.sample({"policy": policy, "scripts": scripts, "attempt_durations": durs,
                    "attempt_times": {r["sid"]: [(round(a["arr_t"] - w.t0, 4), None if a["end_t"] is None else round(a["end_t"] - w.t0, 4))
                                                  for a in r["attempts"]] for r in w.subs}}, limit=1)
    finally:
        end(ctx)


def run_waiters(case, res):
    begin("vt")
    ctx = Ctx()
    try:
        delays = case["delays"]
        policy = {"kind": "custom", "delays": [0] * 6, "max_attempts": 3, "retry_on_value": False, "raise_in": None, "raise_at": 1,
                  "per_sub_delays": [[d] * 6 for d in delays]}
        n = len(delays)
        scripts = [[("raise", "A"), ("raise", "B"), ("ret",)] for _ in range(n)]
        w = RW(ctx, policy, scripts, [0] * n)
        for i in range(n):
            a = ctx.actor("S%d" % i, w.submit).go()
            if drive([a], use_time=False) != "ok" or a.error is not None:
                raise Inconclusive("submit failed: %r" % (a.error,))
        w.run()
        res.execs += 1
        check_common(res)
        if LM.deadlocks:
            return
        if w.judge(res, case["name"]):
            res.key("waiters", str(delays))
        res.sample({"backoff_per_submission": delays,
                    "attempt_times": {r["sid"]: [(round(a["arr_t"] - w.t0, 4), None if a["end_t"] is None else round(a["end_t"] - w.t0, 4))
                                                  for a in r["attempts"]] for r in w.subs}}, limit=1)
    finally:
        end(ctx)


class RScenario(object):
    POLICY = {"kind": "exc", "max_attempts": 3, "sleep": 0.5, "exponent": 2.0, "max_sleep": 120, "base": "Exception"}

    def __init__(self, case):
        self.case = case

    def setup(self):
        ctx = Ctx()
        scripts = [[("raise", "A"), ("raise", "B"), ("ret",)], [("raise", "A"), ("ret",)], [("ret",)], [("ret",)]]
        if self.case.get("popscan"):
            scripts[0] = [("ret",)]
        w = RW(ctx, dict(self.POLICY), scripts, [0, 0, 0, 0])
        ctx.w = w
        w.submit()
        w.submit()
        instr.advance(0.01)
        w.scan()
        if self.case.get("popscan"):
            # submission 1 fails its first attempt and waits for its back-off; submission 0 (in front of it in the
            # executor's list) is still with the delegate
            for due, rec, a in w.open_attempts():
                if rec["sid"] == 1:
                    w.finish_attempt(rec, a)
                    break
            instr.settle()
            w.scan()
        if self.case.get("deep"):
            for due, rec, a in w.open_attempts():
                if rec["sid"] == 0:
                    w.finish_attempt(rec, a)
                    break
            instr.advance(0.6)
            w.scan()
        return ctx

    def victim_role(self, ctx):
        if self.case["victim"] == "worker":
            return [t for t in instr.TRACKED if t.vf_started][-1].vf_role
        return "V"

    def produce(self, ctx, what):
        w = ctx.w
        if what in ("fail0", "fail1", "complete1", "complete0"):
            sid = int(what[-1])
            for due, rec, a in w.open_attempts():
                if rec["sid"] == sid:
                    w.finish_attempt(rec, a)
                    break
        elif what == "submit":
            if len(w.subs) < 4:
                w.submit()
        elif what == "timer":
            from .c04 import fire_next_timer
            fire_next_timer()

    def start_victim(self, ctx):
        return ctx.actor("T" if self.case["victim"] == "worker" else "V", self.produce, ctx, self.case["trigger"]).go()

    def intervene(self, ctx):
        self.produce(ctx, self.case["second"])

    def finish(self, ctx):
        ctx.w.run()

    def oracle(self, ctx, res, info):
        for a in (info.get("victim"), info.get("iact")):
            if a is not None and a.error is not None:
                res.violation("unexpected-exception/%s" % type(a.error).__name__, "%s: %r" % (self.case["name"], a.error), tb=getattr(a, "tb", None))
        # a timer fired by the harness while an attempt is being ended makes that attempt's
        # end time an interval; the judge uses the harness timestamp taken before the action
        ctx.w.judge(res, self.case["name"], info)
        if info.get("hit"):
            res.key("sweep", self.case["name"], info.get("site"))


def run_case(case, res):
    if case["kind"] == "waiters":
        return run_waiters(case, res)
    if case["kind"] == "gen":
        run_gen(case, res)
    else:
        rng = random.Random("c05/%s/%s" % (case["seed"], case["name"]))
        Sweep(RScenario(case), res, "vt", case["name"], gran=case.get("gran")).run(case["cap"], rng, per_site=2)
