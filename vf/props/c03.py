"""C03 - no future is lost: once its underlying work is finished, the future finishes.

Virtual time + manual delegate.  Ground truth of "underlying work" is what the
harness itself did to the delegate's futures.  After every harness action the
clock is advanced by D (larger than every *configured* delay of the stack,
smaller than every fallback timer of the library), so a future that needs a
fallback timer - or nothing at all - to get done is still pending at the
quiescent point where it is judged.

* ``ext.end``    every layer / 2-layer stack x way the work ends (value, exception,
                 delegate future cancelled behind the library's back, cancel through
                 the derived future)
* ``loop.wake``  placement sweeps: worker thread from wake-up to park | producer
                 action, and producer action | worker's timer firing
* ``comb.end``   f_* combinators, inputs finishing in every order / being cancelled
"""
import random
import itertools

from .. import instr, harness, stacks
from ..harness import (Sweep, SweepNested, Ctx, ManualExecutor, SpyFuture, call, check_common, begin, end, drive,
                       Recorded, UserErrorA, outcome, outcome_repr)
from ..instr import LOG, TR, LM, Inconclusive

TITLE = "no future is lost"
RULE = ("one execution = one stack (or combinator) over harness-owned futures, one way for the underlying work to end, "
        "optionally one placement of a second producer action inside the worker's wake-up..park path; after each harness "
        "action virtual time advances by D=0.3s (> configured delays, < fallback timers) and every future whose work is "
        "terminal must be done at that quiescent point; distinct & non-trivial = (stack, end mode, placement site) with at "
        "least one future whose underlying work was ended by the harness")
REQUIRED = ["line_events", "lock_acquisitions", "vevent_waits", "timers_fired"]
ASSUMPTIONS = ["delegate executor is the harness ManualExecutor; retry sleep 0.25 s, poll interval 5 s, throttle fallback 2/30 s"]

D = 0.3
SINGLE = ["map", "flat_map", "retry", "poll", "throttle", "timeout", "cos"]
MODES = ["value", "exc", "inner_cancel", "outer_cancel", "exc_then_inner_cancel", "refused_cancel_then_inner_cancel"]


def layer_specs(layers, tmo=500.0):
    out = []
    for k, t in enumerate(layers):
        L = {"t": t, "k": k}
        if t == "retry":
            L.update(max_attempts=3, sleep=0.25, exponent=1.0)
        if t == "throttle":
            L.update(count=1)
        if t == "poll":
            L.update(interval=5.0)
        if t == "timeout":
            L.update(timeout=tmo)
        if t == "map":
            L.update(fn="tag", error_fn=None)
        out.append(L)
    return out


def cases(tier, seed):
    out = []
    rng = random.Random("c03/%s" % seed)
    pairs = [list(p) for p in itertools.product(SINGLE, SINGLE)]
    triples = [list(p) for p in itertools.product(SINGLE, SINGLE, SINGLE)]
    if tier == "quick":
        st = [[t] for t in SINGLE] + rng.sample(pairs, 14) + rng.sample(triples, 6)
    else:
        st = [[t] for t in SINGLE] + pairs + rng.sample(triples, 80)
    for layers in st:
        out.append({"name": "ext.end/%s" % ">".join(layers), "kind": "ext", "layers": layers})
    workers = ["retry", "poll", "throttle", "timeout"]
    wst = [[w] for w in workers] + [["map", w] for w in workers] + [[w, "map"] for w in workers]
    if tier == "thorough":
        wst += [list(p) for p in itertools.product(workers, workers)]
    for layers in wst:
        for trig in ("submit", "complete", "fail"):
            out.append({"name": "loop.wake/%s/%s" % (">".join(layers), trig), "kind": "wake", "layers": layers,
                        "trigger": trig, "cap": 16 if tier == "quick" else 80})
        out.append({"name": "loop.timer/%s" % ">".join(layers), "kind": "timer", "layers": layers,
                    "cap": 14 if tier == "quick" else 60})
    # the same wake-up sweeps with suspension points at bytecode-instruction boundaries: reaches the
    # windows inside one statement (a right-hand side evaluated, the store not yet done)
    for layers in ([[w] for w in workers] + ([["map", w] for w in workers] if tier == "thorough" else [])):
        for trig in ("submit", "complete", "fail"):
            out.append({"name": "loop.wake-instr/%s/%s" % (">".join(layers), trig), "kind": "wake", "layers": layers,
                        "trigger": trig, "cap": None, "gran": "instr"})
    # (no throttle layer below the timeout: a cancel arriving while the throttle thread hands the job over is refused,
    # which the timeout layer - like for a running future - accepts; the future then legitimately outlives its deadline)
    for layers in ([["timeout"], ["map", "timeout"], ["timeout", "map"]] + ([["timeout", "timeout"], ["timeout", "map", "map"]] if tier == "thorough" else [])):
        for trig in ("submit", "complete", "cancel"):
            for gran in (None, "instr"):
                out.append({"name": "loop.expire%s/%s/%s" % ("-instr" if gran else "", ">".join(layers), trig), "kind": "expire",
                            "layers": layers, "trigger": trig, "cap": None, "gran": gran})
    for layers in ([["retry"], ["poll"], ["throttle"], ["timeout"], ["map"], ["retry", "map"], ["map", "retry"], ["throttle", "retry"]]
                   + ([list(p) for p in itertools.product(SINGLE, SINGLE)] if tier == "thorough" else [])):
        for a, b in (("complete", "complete"), ("complete", "fail"), ("fail", "complete"), ("fail", "fail"), ("complete", "inner_cancel")):
            out.append({"name": "done.pair/%s/%s|%s" % (">".join(layers), a, b), "kind": "donepair", "layers": layers, "a": a, "b": b,
                        "cap": 30 if tier == "quick" else None})
    ast = [[t] for t in SINGLE] + ([list(p) for p in itertools.product(SINGLE, SINGLE)] if tier == "thorough" else
                                    [["map", "retry"], ["retry", "map"], ["map", "poll"], ["flat_map", "throttle"], ["timeout", "map"]])
    for layers in ast:
        for how in ("value", "exc", "inner_cancel", "outer_cancel"):
            for direction in ("attach-first", "end-first", "end-first-worker"):
                out.append({"name": "attach/%s/%s/%s" % (">".join(layers), how, direction), "kind": "attach", "layers": layers,
                            "how": how, "direction": direction, "cap": 24 if tier == "quick" else None,
                            "gran": "instr" if (tier == "thorough" and len(layers) == 1) else "line"})
                if direction == "attach-first" and len(layers) == 1:
                    out.append({"name": "attach-observed/%s/%s/%s" % (">".join(layers), how, direction), "kind": "attach", "layers": layers,
                                "how": how, "direction": direction, "cap": None, "observer": True})
    # both sides suspended: the side ending the work at i, the attaching consumer at j, the ending side released first
    for layers in ([[t] for t in SINGLE] + ([list(p) for p in itertools.product(SINGLE, SINGLE)] if tier == "thorough" else [])):
        for how in ("value", "exc", "inner_cancel"):
            for direction in ("end-first", "end-first-worker"):
                for op in ("cb", "f_map"):
                    out.append({"name": "attach-nested/%s/%s/%s/%s" % (">".join(layers), how, direction, op), "kind": "attach-nested",
                                "layers": layers, "how": how, "direction": direction, "op": op,
                                "budget": 120 if tier == "quick" else 1500})
    for order in (["long", "short"], ["short", "long"], ["long", "short", "mid"], ["mid", "long", "short", "short"]):
        for form in ("executor", "f_timeout"):
            out.append({"name": "ext.timeout/%s/%s" % (form, "-".join(order)), "kind": "tmo", "order": order, "form": form})
    out.append({"name": "comb.sizes/0-45", "kind": "combsizes", "max": 45})
    combs = ["zip", "and", "or", "sequence", "traverse", "apply", "map", "flat_map", "nocancel", "proxy", "timeout"]
    for c in combs:
        out.append({"name": "comb.end/%s" % c, "kind": "comb", "comb": c, "n": 3 if tier == "quick" else 4})
    return out


# --------------------------------------------------------------------------
class World(object):
    """A stack over a ManualExecutor with n submissions; knows what the harness
    did to each submission's delegate items."""

    def __init__(self, ctx, layers, n=2, tmo=500.0):
        self.ctx = ctx
        self.layers = layers
        self.spec = {"base": "me", "layers": layer_specs(layers, tmo)}
        self.b = stacks.build(ctx, self.spec)
        self.me = self.b.base
        self.top = self.b.top
        self.futs = []
        self.fns = []
        self.handled = set()
        self.actions = {}
        self.cancel_ret = {}
        for i in range(n):
            self.submit()

    def submit(self):
        i = len(self.futs)
        fn = Recorded("job%d" % i, lambda idx, i=i: ("v", i))
        self.fns.append(fn)
        try:
            f = call("submit", self.top.submit, fn, _tag=i)
        except RuntimeError:
            return None
        self.futs.append(f)
        return f

    def items_of(self, i):
        return [k for k, it in enumerate(self.me.items) if getattr(it[1], "vf_id", None) == "job%d" % i]

    def pending_items(self):
        return [k for k in self.me.pending()]

    def owner(self, k):
        fid = getattr(self.me.items[k][1], "vf_id", "")
        return int(fid[3:]) if fid.startswith("job") else None

    def act(self, k, how):
        """End delegate item k."""
        self.handled.add(k)
        self.actions[k] = how
        if how == "value":
            self.me.complete(k, ("v", self.owner(k)))
        elif how == "exc":
            self.me.fail(k, UserErrorA("item%d" % k))
        elif how == "inner_cancel":
            self.me.fut(k).cancel()

    def step_all(self, first_modes):
        """End every pending delegate item: items of submission 0 by the scripted
        modes (consumed in order), everything else by value."""
        did = 0
        for k in self.pending_items():
            o = self.owner(k)
            how = "value"
            if o == 0 and first_modes:
                how = first_modes.pop(0)
            if how == "outer_cancel":
                r = call("cancel", self.futs[0].cancel, _tag=0)
                self.cancel_ret[0] = r
                if not r and not self.me.fut(k).done():
                    self.me.complete(k, ("v", 0))
                self.handled.add(k)
                self.actions[k] = "outer_cancel"
            else:
                self.act(k, how)
            did += 1
        return did

    def run_to_end(self, first_modes, rounds=8):
        first_modes = list(first_modes)
        for _ in range(rounds):
            instr.advance(D)
            if LM.deadlocks:
                return
            if all(f.done() for f in self.futs):
                return
            if not self.step_all(first_modes):
                instr.advance(D)
                if not self.pending_items():
                    return

    def judge(self, res, label, mode, info=None):
        """Every future must be done (no delegate work is pending any more)."""
        lost = [(i, f) for i, f in enumerate(self.futs) if not f.done()]
        if self.pending_items():
            # still work the harness has not ended: rounds exhausted
            res.inconclusive.append("%s: delegate items still pending after all rounds" % label)
            return
        site = info.get("site") if info else None
        t_lost = instr.vnow()
        if lost:
            # does a fallback timer rescue it?
            instr.advance(120.0)
        for i, f in lost[:1]:
            late = f.done()
            kind = "late" if late else "lost"
            hows = [self.actions.get(k, "?") for k in self.items_of(i)]
            how = "+".join(hows) if hows else "never-handed-over"
            if "inner_cancel" in how:
                key = "%s/external-cancel/%s" % (kind, type(f).__name__)
            else:
                key = "%s/%s/%s/%s" % (kind, how, type(f).__name__, ">".join(self.layers))
            res.violation(key, "future %d of stack %s (%s) still pending at t=%.3f although its delegate work ended (%s)%s; placement=%s"
                          % (i, ">".join(self.layers), type(f).__name__, t_lost, how,
                             "; it completed only after a fallback timer fired" if late else "; never completes", site),
                          stack=self.layers, mode=mode)
        res.count("futures_judged", len(self.futs))
        res.key(label, mode, site or "-")


def run_ext(case, res):
    layers = case["layers"]
    for mode in MODES:
        for running in (False, True):
            if running and mode != "outer_cancel":
                continue
            begin("vt")
            ctx = Ctx()
            try:
                w = World(ctx, layers, n=2)
                modes = {"exc_then_inner_cancel": ["exc", "inner_cancel"],
                         "refused_cancel_then_inner_cancel": ["inner_cancel"]}.get(mode, [mode])
                if mode == "refused_cancel_then_inner_cancel":
                    # the delegate refuses the first cancel request (like a future whose cancel is vetoed once);
                    # cancel() through the derived future is refused, later somebody else cancels the delegate
                    instr.advance(D)
                    for k in w.items_of(0):
                        w.me.fut(k).refuse_cancels = 1
                    r = call("cancel", w.futs[0].cancel, _tag=0)
                    w.cancel_ret[0] = r
                    instr.advance(D)
                if running:
                    instr.advance(D)
                    for k in w.items_of(0):
                        w.me.mark_running(k)
                w.run_to_end(modes)
                res.execs += 1
                check_common(res)
                if not LM.deadlocks:
                    w.judge(res, "ext/" + ">".join(layers), mode + ("/running" if running else ""))
                    res.sample({"stack": layers, "end_mode": mode, "outcomes": [outcome_repr(outcome(f)) for f in w.futs],
                                "virtual_time": round(instr.vnow() - 1000.0, 3)}, limit=2)
            finally:
                end(ctx)


# --------------------------------------------------------------------------
class WakeScenario(object):
    """victim = the layer's worker thread reacting to ``trigger``;
    intervention = a second producer action."""

    def __init__(self, layers, trigger, second):
        self.layers, self.trigger, self.second = layers, trigger, second

    def setup(self):
        ctx = Ctx()
        w = World(ctx, self.layers, n=2)
        ctx.w = w
        instr.advance(D)
        return ctx

    def victim_role(self, ctx):
        ths = [t for t in instr.TRACKED if t.vf_started]
        return ths[0].vf_role

    def produce(self, ctx, what):
        w = ctx.w
        if what == "submit":
            w.submit()
        elif what in ("complete", "fail", "inner_cancel"):
            p = w.pending_items()
            if p:
                w.act(p[0], {"complete": "value", "fail": "exc", "inner_cancel": "inner_cancel"}[what])
        elif what == "cancel":
            for i, f in enumerate(w.futs):
                if not f.done():
                    r = call("cancel", f.cancel, _tag=i)
                    if not r:
                        pass
                    break
        elif what == "notify":
            for ex in w.b.executors:
                if hasattr(ex, "notify"):
                    ex.notify()

    def start_victim(self, ctx):
        return ctx.actor("T", self.produce, ctx, self.trigger).go()

    def intervene(self, ctx):
        self.produce(ctx, self.second)

    def finish(self, ctx):
        ctx.w.run_to_end([])

    def oracle(self, ctx, res, info):
        ctx.w.judge(res, "wake/%s/%s|%s" % (">".join(self.layers), self.trigger, self.second), "value", info)
        if info.get("hit"):
            res.sample({"stack": self.layers, "trigger": self.trigger, "second_action": self.second,
                        "worker_paused_at": info.get("site")}, limit=1)


class ExpireScenario(WakeScenario):
    """Timeout stacks whose delegate work never ends: the worker reacts to ``trigger`` while a second producer acts;
    afterwards nothing is completed and the clock passes every deadline: each future still pending must have been
    ended by its timeout (the configured time bound of the statement)."""
    TMO = 2.0

    def setup(self):
        ctx = Ctx()
        ctx.w = World(ctx, self.layers, n=2, tmo=self.TMO)
        instr.advance(D)
        return ctx

    def finish(self, ctx):
        ctx.t_last = instr.vnow()
        for _ in range(6):
            instr.advance(self.TMO / 4)
        instr.advance(D)

    def oracle(self, ctx, res, info):
        w = ctx.w
        site = info.get("site") if info else None
        label = "expire/%s/%s|%s" % (">".join(self.layers), self.trigger, self.second)
        lost = [(i, f) for i, f in enumerate(w.futs) if not f.done()]
        if lost and any(not w.me.fut(k).done() and getattr(w.me.fut(k), "running", lambda: False)() for k in w.pending_items()):
            res.inconclusive.append("%s: a delegate future is running, its cancel is refused" % label)
            return
        if lost:
            instr.advance(120.0)
        for i, f in lost[:1]:
            late = f.done()
            res.violation("%s/deadline-passed/%s/%s" % ("late" if late else "lost", type(f).__name__, ">".join(self.layers)),
                          "future %d of stack %s (timeout %.1fs, submitted by t=%.3f) is still pending at t=%.3f: its deadline passed and it was "
                          "not cancelled%s; placement=%s" % (i, ">".join(self.layers), self.TMO, ctx.t_last, ctx.t_last + 1.5 * self.TMO,
                                                           "; it ended only when an unrelated timer fired" if late else "; never ends", site),
                          stack=self.layers)
        res.count("futures_judged", len(w.futs))
        res.count("futures_ended_by_deadline", len([f for f in w.futs if f.cancelled()]))
        res.key(label, site or "-")


class TimerScenario(WakeScenario):
    """victim = a producer action (paused at each boundary); intervention = the
    worker's pending timer fires and the worker runs until it parks again."""

    def __init__(self, layers, prod):
        self.layers, self.prod = layers, prod
        self.trigger, self.second = prod, "timer"

    def setup(self):
        ctx = WakeScenario.setup(self)
        if "retry" in self.layers:
            # put a job into back-off so that the retry thread has a timer
            p = ctx.w.pending_items()
            if p:
                ctx.w.act(p[0], "exc")
                instr.settle()
        return ctx

    def victim_role(self, ctx):
        return "V"

    def start_victim(self, ctx):
        return ctx.actor("V", self.produce, ctx, self.prod).go()

    def intervene(self, ctx):
        me = ctx.actors[-1]
        me.external = True
        with instr.CV:
            cands = [x for x in instr.CLOCK.waiters if not x.woken and x.deadline is not None]
            if not cands:
                return
            x = min(cands, key=lambda x: x.deadline)
            if instr.CLOCK.now < x.deadline:
                instr.CLOCK.now = x.deadline
            x.woken = True
            x.timed_out = True
            instr.CLOCK.timers_fired += 1
            instr.CV.notify_all()
        instr.settle()

    def oracle(self, ctx, res, info):
        ctx.w.judge(res, "timer/%s/%s" % (">".join(self.layers), self.prod), "value", info)


class DonePairScenario(object):
    """Two delegate futures of different submissions finish on two threads: the completion of the
    later submission is suspended at each statement boundary while the earlier one completes."""

    def __init__(self, case):
        self.case = case

    def setup(self):
        ctx = Ctx()
        w = World(ctx, self.case["layers"], n=3)
        ctx.w = w
        instr.advance(D)
        # with a throttle of 1 only one item is at the delegate; lift it by finishing nothing - use what is there
        ctx.items = w.pending_items()
        return ctx

    def victim_role(self, ctx):
        return "V"

    def _act(self, ctx, which, how):
        w = ctx.w
        p = [k for k in ctx.items if not w.me.fut(k).done()]
        if not p:
            return
        k = p[-1] if which == "later" else p[0]
        w.act(k, {"complete": "value", "fail": "exc", "inner_cancel": "inner_cancel"}[how])

    def start_victim(self, ctx):
        return ctx.actor("V", self._act, ctx, "later", self.case["a"]).go()

    def intervene(self, ctx):
        self._act(ctx, "earlier", self.case["b"])

    def finish(self, ctx):
        ctx.w.run_to_end([])

    def oracle(self, ctx, res, info):
        ctx.w.judge(res, "donepair/%s/%s|%s" % (">".join(self.case["layers"]), self.case["a"], self.case["b"]), "value", info)


ATTACH_OPS = ["cb", "f_map", "f_zip", "f_nocancel", "f_flat_map"]


class AttachScenario(object):
    """A consumer chains onto a future of the stack (done-callback / f_map / f_zip / ...) while the work
    under that future ends on another thread.  Either side is the one suspended at each boundary.  Whatever
    the order, once the stack's future is done the attached callback has run and the chained future is done."""

    def __init__(self, case, op):
        self.case, self.op = case, op

    def setup(self):
        ctx = Ctx()
        w = World(ctx, self.case["layers"], n=2)
        ctx.w = w
        ctx.cb_calls = []
        ctx.chained = None
        if self.case.get("observer"):
            # somebody had put a done-callback of their own on the future earlier - one that raises
            def observer(_f):
                raise UserErrorA("observer")
            w.futs[0].add_done_callback(observer)
        instr.advance(D)
        return ctx

    def victim_role(self, ctx):
        if self.case["direction"] == "end-first-worker":
            ths = [t for t in instr.TRACKED if t.vf_started]
            if not ths:
                return None
            return ths[0].vf_role
        return "V"

    def attach(self, ctx):
        ME = instr.ME
        f = ctx.w.futs[0]
        op = self.op
        if op == "cb":
            f.add_done_callback(lambda fut: ctx.cb_calls.append(instr.current_role()))
        elif op == "f_map":
            ctx.chained = ME.futures.f_map(f, lambda v: ("mapped", v))
        elif op == "f_flat_map":
            ctx.chained = ME.futures.f_flat_map(f, lambda v: ME.futures.f_return(("flat", v)))
        elif op == "f_zip":
            other = SpyFuture("other")
            other.set_result("o")
            ctx.chained = ME.futures.f_zip(f, other)
        elif op == "f_nocancel":
            ctx.chained = ME.futures.f_nocancel(f)
        elif op == "f_proxy":
            ctx.chained = ME.futures.f_proxy(f, timeout=0.5)

    def end_work(self, ctx):
        w = ctx.w
        how = self.case["how"]
        if how == "outer_cancel":
            r = call("cancel", w.futs[0].cancel, _tag=0)
            w.cancel_ret[0] = r
            return
        for k in w.pending_items():
            if w.owner(k) == 0:
                w.act(k, how)
                return

    def start_victim(self, ctx):
        d = self.case["direction"]
        if d == "attach-first":
            return ctx.actor("V", self.attach, ctx).go()
        if d == "end-first":
            return ctx.actor("V", self.end_work, ctx).go()
        return ctx.actor("T", self.end_work, ctx).go()

    def intervene(self, ctx):
        if self.case["direction"] == "attach-first":
            self.end_work(ctx)
        else:
            self.attach(ctx)

    # SweepNested interface
    role_a = victim_role
    start_a = start_victim
    intervene1 = attach

    def finish(self, ctx):
        ctx.w.run_to_end([])

    def oracle(self, ctx, res, info):
        w = ctx.w
        if info.get("site2"):
            info = dict(info, site=(info.get("site"), info.get("site2")))
        label = "attach/%s/%s/%s/%s" % (">".join(self.case["layers"]), self.case["how"], self.case["direction"], self.op)
        w.judge(res, label, self.case["how"], info)
        f = w.futs[0]
        site = info.get("site")
        attached = (self.op == "cb" and True) or ctx.chained is not None
        if not f.done() or not info.get("ran_intervention", True):
            return
        instr.advance(D)
        if self.op == "cb":
            # the attach call may not have happened at all if the victim never got there
            if ctx.cb_calls == [] and info.get("attached", True):
                res.violation("lost/callback/%s/%s" % (type(f).__name__, self.case["how"]),
                              "done-callback added to a %s (stack %s) concurrently with its completion (%s) was never "
                              "invoked although the future is done: %s; placement=%s direction=%s"
                              % (type(f).__name__, ">".join(self.case["layers"]), self.case["how"], outcome_repr(outcome(f)),
                                 site, self.case["direction"]), stack=self.case["layers"])
            res.count("attached_callbacks_judged")
        elif ctx.chained is not None:
            if not ctx.chained.done():
                res.violation("lost/chained/%s/%s/%s" % (self.op, type(f).__name__, self.case["how"]),
                              "%s chained onto a %s (stack %s) concurrently with its completion (%s) is still pending "
                              "although its input is done: %s; placement=%s direction=%s"
                              % (self.op, type(f).__name__, ">".join(self.case["layers"]), self.case["how"],
                                 outcome_repr(outcome(f)), site, self.case["direction"]), stack=self.case["layers"])
            res.count("chained_futures_judged")
        if info.get("hit"):
            res.sample({"stack": self.case["layers"], "work_ends_by": self.case["how"], "direction": self.case["direction"],
                        "attached": self.op, "suspended_at": site,
                        "chained": outcome_repr(outcome(ctx.chained)) if ctx.chained is not None else None,
                        "callback_ran_on": ctx.cb_calls}, limit=1)


def run_attach(case, res):
    rng = random.Random("c03/%s/%s" % (case["seed"], case["name"]))
    for op in ATTACH_OPS:
        scn = AttachScenario(case, op)
        if case["direction"] == "end-first-worker":
            # only meaningful when the stack has a worker thread
            begin("vt")
            ctx = scn.setup()
            try:
                has = scn.victim_role(ctx) is not None
            finally:
                end(ctx)
            if not has:
                res.count("attach.no_worker_thread")
                return
        Sweep(scn, res, "vt", case["name"], gran=case.get("gran")).run(case["cap"], rng, per_site=2)
        if harness.need_recycle():
            return


def run_attach_nested(case, res):
    rng = random.Random("c03/%s/%s" % (case["seed"], case["name"]))
    scn = AttachScenario(case, case["op"])
    if case["direction"] == "end-first-worker":
        begin("vt")
        ctx = scn.setup()
        try:
            has = scn.victim_role(ctx) is not None
        finally:
            end(ctx)
        if not has:
            res.count("attach.no_worker_thread")
            return
    SweepNested(scn, res, "vt", case["name"]).run(None, None, rng, per_site=1, budget=case["budget"])


def run_wake(case, res):
    rng = random.Random("c03/%s/%s" % (case["seed"], case["name"]))
    seconds = ["submit", "complete", "fail", "cancel", "inner_cancel"]
    if "poll" in case["layers"]:
        seconds.append("notify")
    for second in seconds:
        Sweep(WakeScenario(case["layers"], case["trigger"], second), res, "vt", case["name"],
              gran=case.get("gran")).run(case["cap"], rng, per_site=2)
        if harness.need_recycle():
            return


def run_expire(case, res):
    rng = random.Random("c03/%s/%s" % (case["seed"], case["name"]))
    for second in ["submit", "complete", "cancel"]:
        Sweep(ExpireScenario(case["layers"], case["trigger"], second), res, "vt", case["name"],
              gran=case.get("gran")).run(case["cap"], rng, per_site=2)
        if harness.need_recycle():
            return


def run_timer(case, res):
    rng = random.Random("c03/%s/%s" % (case["seed"], case["name"]))
    for prod in ["submit", "complete", "fail", "cancel"]:
        Sweep(TimerScenario(case["layers"], prod), res, "vt", case["name"]).run(case["cap"], rng, per_site=2)
        if harness.need_recycle():
            return


# --------------------------------------------------------------------------
def make_comb(comb, ins):
    F = instr.ME.futures
    if comb == "zip":
        return F.f_zip(*ins)
    if comb == "and":
        return F.f_and(*ins)
    if comb == "or":
        return F.f_or(*ins)
    if comb == "sequence":
        return F.f_sequence(list(ins))
    if comb == "traverse":
        it = iter(ins)
        return F.f_traverse(lambda x: next(it), range(len(ins)))
    if comb == "apply":
        return F.f_apply(ins[0], *ins[1:])
    if comb == "map":
        return F.f_map(ins[0], lambda x: x)
    if comb == "flat_map":
        return F.f_flat_map(ins[0], lambda x: ins[1])
    if comb == "nocancel":
        return F.f_nocancel(ins[0])
    if comb == "proxy":
        return F.f_proxy(ins[0])
    if comb == "timeout":
        return F.f_timeout(ins[0], 1000.0)
    raise ValueError(comb)


def run_comb_refused(case, res):
    """cancel() of the derived future is refused (input shielded by f_nocancel / refusing once), then the
    input is cancelled by someone else: the derived future must still end."""
    F = instr.ME.futures
    comb = case["comb"]
    if comb in ("nocancel",):
        return
    for shield in ("nocancel", "refuse_once"):
        begin("vt")
        ctx = Ctx()
        try:
            spies = [SpyFuture("in%d" % i) for i in range(3)]
            if shield == "nocancel":
                ins = [F.f_nocancel(s) for s in spies]
            else:
                ins = spies
                for s in spies:
                    s.refuse_cancels = 1
            try:
                out = make_comb(comb, ins)
            except Exception:
                continue
            r = out.cancel()
            instr.advance(D)
            for s in spies:
                s.cancel()
            instr.advance(D)
            res.execs += 1
            check_common(res)
            if not out.done() and all(s.done() for s in spies) and r is not True:
                res.violation("lost/external-cancel-after-refused-cancel/%s" % type(out).__name__,
                              "f_%s: cancel() of the output was refused (%s), then every input was cancelled by someone else: output (%s) still pending"
                              % (comb, shield, type(out).__name__))
            res.key("comb-refused", comb, shield)
        finally:
            end(ctx)


def run_comb(case, res):
    comb = case["comb"]
    run_comb_refused(case, res)
    arity = {"map": 1, "nocancel": 1, "proxy": 1, "timeout": 1, "flat_map": 2}.get(comb, case["n"])
    ends = ["value", "exc", "cancel"]
    F = instr.ME.futures
    WRAPS = {"plain": lambda f: f, "proxy": lambda f: F.f_proxy(f), "map": lambda f: F.f_map(f, lambda v: v),
             "nocancel": lambda f: F.f_nocancel(f)}
    variants = [("plain", "none")] + [(w, "none") for w in ("proxy", "map", "nocancel")] + [("plain", cb) for cb in ("cancel_inputs", "complete_inputs")] \
        + [("map", "cancel_inputs")]
    for (wrap, out_cb), assign in itertools.product(variants, itertools.product(ends, repeat=arity)):
        for order in itertools.permutations(range(arity)):
            begin("vt")
            ctx = Ctx()
            try:
                ins = [SpyFuture("in%d" % i) for i in range(arity)]
                # what the combinator is given: the harness's futures themselves, or library futures derived from them
                given = [WRAPS[wrap](f) for f in ins]
                out = make_comb(comb, given)
                if out_cb == "cancel_inputs":
                    # a done-callback of the output that tidies up the inputs (same thread, inside the library's dispatch)
                    out.add_done_callback(lambda o: [g.cancel() for g in given])
                elif out_cb == "complete_inputs":
                    def fill(o):
                        for f in ins:
                            try:
                                f.set_result(0)
                            except Exception:
                                pass
                    out.add_done_callback(fill)
                for i in order:
                    f = ins[i]
                    if f.done():
                        continue  # the combinator already cancelled it
                    how = assign[i]
                    try:
                        if how == "value":
                            v = (lambda *a: ("applied", a)) if (comb == "apply" and i == 0) else (i + 1)
                            try:
                                f.set_result(v)
                            except Exception:
                                pass
                        elif how == "exc":
                            try:
                                f.set_exception(UserErrorA("in%d" % i))
                            except Exception:
                                pass
                        else:
                            f.cancel()
                    except instr.DeadlockBroken:
                        # the lock monitor recorded it (reported by check_common below); this thread goes on
                        break
                    # flat_map: the inner future only matters if the outer succeeded
                instr.advance(D)
                res.execs += 1
                check_common(res, deadlock_suffix="@comb.end/%s/out-callback:%s" % (comb, out_cb))
                if LM.deadlocks:
                    continue
                relevant_done = all(f.done() for f in ins)
                if comb == "flat_map" and assign[0] != "value":
                    relevant_done = ins[0].done()
                if relevant_done and not out.done():
                    how = "external-cancel" if "cancel" in assign else "/".join(assign)
                    res.violation("lost/%s/%s" % (how, type(out).__name__) if how == "external-cancel" else
                                  "lost/comb/%s/%s" % (comb, how),
                                  "f_%s output (%s) pending although every input is terminal: inputs=%s order=%s (inputs given as: %s, "
                                  "output callback: %s)" % (comb, type(out).__name__, assign, order, wrap, out_cb), comb=comb)
                res.key("comb", comb, assign, order, wrap, out_cb)
                res.count("combinator_outputs_judged")
                res.sample({"combinator": comb, "inputs_are": wrap, "output_callback": out_cb, "input_ends": assign, "completion_order": order,
                            "output": outcome_repr(outcome(out))}, limit=1)
            finally:
                end(ctx)


def run_combsizes(case, res):
    """Every number of inputs from 0 to max: all inputs succeed (beforehand / afterwards) -> the output is done."""
    for n in range(0, case["max"] + 1):
        for comb in ("zip", "sequence", "traverse", "apply", "and", "or"):
            for when in ("before", "after"):
                if n == 0 and comb in ("apply", "and", "or"):
                    continue
                begin("vt")
                ctx = Ctx()
                try:
                    ins = [SpyFuture("in%d" % i) for i in range(n)]

                    def finish_all():
                        for i, f in enumerate(ins):
                            try:
                                f.set_result((lambda *a: len(a)) if (comb == "apply" and i == 0) else 1)
                            except Exception:
                                pass  # (f_or has cancelled the inputs it no longer needs)
                    if when == "before":
                        finish_all()
                    out = make_comb(comb, ins)
                    if when == "after":
                        finish_all()
                    res.execs += 1
                    if not out.done():
                        res.violation("lost/comb/%s/size" % comb, "f_%s with %d inputs, all succeeded (%s the call): the output is still pending"
                                      % (comb, n, when))
                    res.key("combsizes", comb, n, when)
                finally:
                    end(ctx)
    check_common(res)


def run_tmo(case, res):
    """Work that never ends by itself: the configured timeout is what ends it."""
    T = {"long": 40.0, "short": 1.0, "mid": 7.0}
    begin("vt")
    ctx = Ctx()
    try:
        ME = instr.ME
        me = ManualExecutor("me")
        ctx.own(me)
        futs = []
        t0 = instr.vnow()
        if case["form"] == "executor":
            ex = ctx.own(ME.Executors.with_timeout(me, 1000.0))
            for name in case["order"]:
                futs.append((name, ex.submit_timeout(T[name], lambda: None)))
        else:
            for name in case["order"]:
                futs.append((name, ME.futures.f_timeout(SpyFuture("in-" + name), T[name])))
        for horizon in sorted(set(T[n] for n in case["order"])):
            instr.advance(until=t0 + horizon + 0.05)
            for name, f in futs:
                if T[name] <= horizon and not f.done():
                    res.violation("late/timeout/%s" % case["form"],
                                  "future with timeout %.1fs (%s) still pending at t0+%.2f; submitted order %s"
                                  % (T[name], name, instr.vnow() - t0, case["order"]))
            res.key("tmo", case["form"], "-".join(case["order"]), horizon)
        res.execs += 1
        res.count("futures_judged", len(futs))
        check_common(res)
    finally:
        end(ctx)


def run_case(case, res):
    k = case["kind"]
    if k == "tmo":
        return run_tmo(case, res)
    if k == "donepair":
        rng = random.Random("c03/%s/%s" % (case["seed"], case["name"]))
        return Sweep(DonePairScenario(case), res, "vt", case["name"]).run(case["cap"], rng, per_site=3)
    if k == "combsizes":
        return run_combsizes(case, res)
    if k == "attach":
        return run_attach(case, res)
    if k == "attach-nested":
        return run_attach_nested(case, res)
    if k == "ext":
        run_ext(case, res)
    elif k == "wake":
        run_wake(case, res)
    elif k == "timer":
        run_timer(case, res)
    elif k == "expire":
        run_expire(case, res)
    else:
        run_comb(case, res)
