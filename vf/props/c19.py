"""C19 - bind / flat_bind chains are equivalent to the executor chain; names propagate.

Paired programs generated from the same chain: submit form, chain applied after
bind, before bind, split around bind; several callables derived from one bound
callable (aliasing); flat_bind vs bind + flat_map(identity).  Names: threads created
by the layers must carry the inherited / explicitly given name."""
import random
import functools
import threading
import concurrent.futures as cf

from .. import instr, harness
from ..harness import Ctx, check_common, begin, end, Recorded, UserErrorA, UserErrorB, outcome, outcome_repr
from ..instr import LOG, TR, LM

TITLE = "bind / flat_bind, names"
RULE = ("one execution = one generated chain of 0-4 layers (map, flat_map, retry, poll, throttle, timeout, cancel_on_shutdown) "
        "over a sync or thread-pool base, one callable kind (function, partial, callable object, future-returning), one "
        "argument list and one outcome script, run in the submit form and in a bind form (chain after / before / split around "
        "bind, derived siblings, flat_bind) and compared; or one chain with a generated name assignment whose threads are "
        "inspected; distinct & non-trivial = (chain, callable kind, script, form) resp. (chain, name assignment)")
REQUIRED = ["line_events", "lock_acquisitions"]
TYPES = ["map", "flat_map", "retry", "poll", "throttle", "timeout", "cos"]


def cases(tier, seed):
    out = []
    n = 24 if tier == "quick" else 3000
    for i in range(n):
        out.append({"name": "bind.diff/%d" % i, "kind": "diff", "idx": i, "n": 12 if tier == "quick" else 25})
    for i in range(8 if tier == "quick" else 800):
        out.append({"name": "bind.alias/%d" % i, "kind": "alias", "idx": i, "n": 10})
    for i in range(8 if tier == "quick" else 800):
        out.append({"name": "names/%d" % i, "kind": "names", "idx": i, "n": 12})
    return out


def gen_chain(rng, maxlen=4):
    chain = []
    for k in range(rng.randint(0, maxlen)):
        t = rng.choice(TYPES)
        L = {"t": t, "k": k}
        if t == "retry":
            L["max_attempts"] = rng.choice([1, 2, 3])
        if t == "map":
            L["efn"] = rng.random() < 0.3
        chain.append(L)
    return chain


class ForeignFuture(object):
    """a future of another framework: implements the Future interface without being a concurrent.futures.Future"""

    def __init__(self, inner):
        self._inner = inner

    def add_done_callback(self, fn):
        self._inner.add_done_callback(lambda _f: fn(self))

    def result(self, timeout=None):
        return self._inner.result(timeout)

    def exception(self, timeout=None):
        return self._inner.exception(timeout)

    def cancel(self):
        return self._inner.cancel()

    def cancelled(self):
        return self._inner.cancelled()

    def done(self):
        return self._inner.done()

    def running(self):
        return self._inner.running()


class Env(object):
    """One run of one program form: fresh base executor, fresh recorded functions."""

    def __init__(self, ctx, base, script, kind):
        ME = instr.ME
        self.ctx = ctx
        self.ME = ME
        self.base = ctx.own(ME.Executors.sync() if base == "sync" else ME.Executors.thread_pool(max_workers=2))
        self.script = script
        self.kind = kind
        self.layer_calls = {}
        self.fn_calls = []
        self.lock = threading.Lock()

    def core(self, *a, **kw):
        with self.lock:
            i = len(self.fn_calls)
            self.fn_calls.append((a, sorted(kw.items())))
        step = self.script[min(i, len(self.script) - 1)]
        if step == "ret":
            v = ("r", a, sorted(kw.items()))
            if self.kind == "future":
                return self.ME.futures.f_return(v)
            if self.kind == "foreign_future":
                return ForeignFuture(self.ME.futures.f_return(v))
            if self.kind == "future_of_future":
                # fn hands back a future whose value is itself a future (e.g. a job handle): one level is flattened
                return self.ME.futures.f_return(self.ME.futures.f_return(v))
            return v
        raise (UserErrorA if step == "A" else UserErrorB)("call%d" % i)

    def callable(self):
        if self.kind == "partial":
            return functools.partial(self.core, "bound-first")
        if self.kind == "object":
            env = self

            class Obj(object):
                def __call__(self, *a, **kw):
                    return env.core(*a, **kw)
            return Obj()
        if self.kind == "object_attrs":
            env = self

            class Wrapper(object):
                """a decorator-style callable object carrying attributes of its own"""

                def __init__(self):
                    self._fn = "wrapper's own _fn"
                    self._executor = "wrapper's own _executor"
                    self._name = "wrapper-name"
                    self._delegate = None
                    self.calls = 0

                def __call__(self, *a, **kw):
                    self.calls += 1
                    return env.core(*a, **kw)
            return Wrapper()
        if self.kind == "falsy_object":
            env = self

            class EmptyPipeline(object):
                """a callable object whose truth value is False"""

                def __len__(self):
                    return 0

                def __call__(self, *a, **kw):
                    return env.core(*a, **kw)
            return EmptyPipeline()
        if self.kind == "rebound":
            # a callable that is itself the bound callable of another executor (its result is a future)
            inner = self.ctx.own(self.ME.Executors.sync(name="inner"))
            return inner.bind(self.core)
        return self.core

    def note(self, name):
        with self.lock:
            self.layer_calls[name] = self.layer_calls.get(name, 0) + 1

    def apply(self, obj, L):
        ME = self.ME
        t, k = L["t"], L["k"]
        if t == "map":
            def fn(x, k=k):
                self.note("map%d" % k)
                return ("m%d" % k, x if not hasattr(x, "add_done_callback") else "<future>")
            efn = None
            if L.get("efn"):
                def efn(ex, k=k):
                    self.note("efn%d" % k)
                    return ("rec%d" % k, type(ex).__name__)
            return obj.with_map(fn, error_fn=efn)
        if t == "flat_map":
            def ffn(x, k=k):
                self.note("fmap%d" % k)
                return ME.futures.f_return(("fm%d" % k, x if not hasattr(x, "add_done_callback") else "<future>"))
            return obj.with_flat_map(ffn)
        if t == "retry":
            return obj.with_retry(max_attempts=L["max_attempts"], sleep=0)
        if t == "poll":
            def pfn(ds, k=k):
                for d in ds:
                    self.note("poll%d" % k)
                    r = d.result
                    d.yield_result(("p%d" % k, r if not hasattr(r, "add_done_callback") else "<future>"))
                return 0.002
            return obj.with_poll(pfn, default_interval=0.002)
        if t == "throttle":
            return obj.with_throttle(2)
        if t == "timeout":
            return obj.with_timeout(100.0)
        if t == "cos":
            return obj.with_cancel_on_shutdown()
        raise ValueError(t)

    def own_chain(self, obj):
        # executors created by the chain are reachable from the top: shut the top down at the end
        if hasattr(obj, "shutdown"):
            self.ctx.own(obj)
        else:
            ex = getattr(obj, "_BoundCallable__executor", None)
            if ex is not None:
                self.ctx.own(ex)


def get(f):
    try:
        v = f.result(20)
    except cf.TimeoutError:
        return ("timeout", None)
    except cf.CancelledError:
        return ("cancelled", None)
    except BaseException as e:
        return ("exc", (type(e).__name__, str(e)))
    if hasattr(v, "add_done_callback"):
        try:
            inner = v.result(5)
        except BaseException as e:
            inner = ("exc", type(e).__name__)
        return ("nested-future", inner)
    return ("value", v)


def run_form(ctx, form, base, chain, script, kind, args, kwargs, split=None):
    env = Env(ctx, base, script, kind)
    fn = env.callable()
    cur = env.base
    if form == "submit":
        for L in chain:
            cur = env.apply(cur, L)
        env.own_chain(cur)
        f = cur.submit(fn, *args, **kwargs)
    elif form == "bind_then_chain":
        cur = cur.bind(fn)
        for L in chain:
            cur = env.apply(cur, L)
        env.own_chain(cur)
        f = cur(*args, **kwargs)
    elif form == "chain_then_bind":
        for L in chain:
            cur = env.apply(cur, L)
        cur = cur.bind(fn)
        env.own_chain(cur)
        f = cur(*args, **kwargs)
    elif form == "split":
        for L in chain[:split]:
            cur = env.apply(cur, L)
        cur = cur.bind(fn)
        for L in chain[split:]:
            cur = env.apply(cur, L)
        env.own_chain(cur)
        f = cur(*args, **kwargs)
    elif form == "flat_bind":
        cur = cur.flat_bind(fn)
        for L in chain:
            cur = env.apply(cur, L)
        env.own_chain(cur)
        f = cur(*args, **kwargs)
    elif form == "bind_flat_identity":
        cur = cur.bind(fn).with_flat_map(lambda x: x)
        for L in chain:
            cur = env.apply(cur, L)
        env.own_chain(cur)
        f = cur(*args, **kwargs)
    else:
        raise ValueError(form)
    o = get(f)
    return {"outcome": o, "fn_calls": list(env.fn_calls), "layer_calls": dict(env.layer_calls)}


def strip_poll(d):
    # how often a poll function sees a descriptor depends on timing (real-time poll thread), not on the form
    return {k: v for k, v in d.items() if not k.startswith("poll")}


def run_diff(case, res):
    rng = random.Random("c19/%s/%s" % (case["seed"], case["idx"]))
    for it in range(case["n"]):
        chain = gen_chain(rng)
        base = rng.choice(["sync", "sync", "pool"])
        kind = rng.choice(["function", "partial", "object", "future", "object_attrs", "rebound", "foreign_future", "falsy_object",
                           "future_of_future"])
        script = [rng.choice(["A", "B"]) for _ in range(rng.choice([0, 0, 1, 2]))] + [rng.choice(["ret", "ret", "ret", "A"])]
        args = tuple(rng.choice([1, "s", None, (2, 3)]) for _ in range(rng.randint(0, 3)))
        kwargs = {k: rng.randint(0, 9) for k in rng.sample(["x", "y"], rng.randint(0, 2))}
        forms = ["bind_then_chain", "chain_then_bind"]
        split = rng.randint(0, len(chain)) if chain else 0
        forms.append("split")
        begin("rt")
        ctx = Ctx()
        try:
            ref_form = "submit"
            if kind in ("future", "foreign_future", "future_of_future"):
                # fn returns a future: compare flat_bind with bind + flat_map(identity), and both with submit + flat_map first
                forms = ["flat_bind", "bind_flat_identity"]
                ref = run_form(ctx, "submit", base, [{"t": "flat_map_identity", "k": -1}] + chain, script, kind, args, kwargs) \
                    if False else run_form(ctx, "bind_flat_identity", base, chain, script, kind, args, kwargs)
                ref_form = "bind_flat_identity"
            else:
                ref = run_form(ctx, "submit", base, chain, script, kind, args, kwargs)
            desc = "base=%s chain=%s callable=%s script=%s args=%s kw=%s" % (base, [L["t"] for L in chain], kind, script, args, kwargs)
            for form in forms:
                if form == ref_form:
                    continue
                try:
                    got = run_form(ctx, form, base, chain, script, kind, args, kwargs, split=split)
                except (instr.DeadlockBroken, instr.CaseAbort):
                    raise
                except Exception as e:
                    res.execs += 1
                    res.violation("bind-differs/raised/%s/%s" % (form, type(e).__name__),
                                  "%s: building / calling the %s form raised %r (the %s form gives %s)" % (desc, form, e, ref_form, ref["outcome"]))
                    continue
                res.execs += 1
                if got["outcome"] != ref["outcome"]:
                    res.violation("bind-differs/outcome/%s" % form, "%s: %s form gives %s, %s form gives %s"
                                  % (desc, ref_form, ref["outcome"], form, got["outcome"]))
                elif got["fn_calls"] != ref["fn_calls"]:
                    res.violation("bind-differs/invocations/%s" % form, "%s: fn invoked %s in %s form, %s in %s form"
                                  % (desc, ref["fn_calls"], ref_form, got["fn_calls"], form))
                elif strip_poll(got["layer_calls"]) != strip_poll(ref["layer_calls"]) and form != "split":
                    res.violation("bind-differs/layer-functions/%s" % form, "%s: layer functions called %s vs %s" % (desc, ref["layer_calls"], got["layer_calls"]))
                if kind == "future" and got["outcome"][0] == "nested-future":
                    res.violation("flat_bind-nested-future", "%s: %s returned a nested future" % (desc, form))
                if kind == "future_of_future" and not chain and script[-1] == "ret" and not any(st != "ret" for st in script) \
                        and got["outcome"][0] != "nested-future":
                    res.violation("flat_bind-flattened-twice", "%s: fn's future resolves to a future; %s must give that future (one level "
                                  "flattened), got %s" % (desc, form, got["outcome"]))
                res.key(desc, form)
            res.sample({"chain": [L["t"] for L in chain], "base": base, "callable": kind, "script": script, "reference_outcome": repr(ref["outcome"])[:100]}, limit=1)
            check_common(res)
        finally:
            end(ctx)


def run_alias(case, res):
    """Several callables derived from one bound callable must not influence each other."""
    rng = random.Random("c19a/%s/%s" % (case["seed"], case["idx"]))
    for it in range(case["n"]):
        begin("rt")
        ctx = Ctx()
        try:
            base_chain = gen_chain(rng, 2)
            d_chains = [gen_chain(rng, 2) for _ in range(rng.randint(1, 3))]
            script = [rng.choice(["A"]) for _ in range(rng.choice([0, 1]))] + ["ret"]
            env = Env(ctx, "sync", ["ret"], "function")
            # build: base bound callable, then derive siblings, then call in a shuffled order
            calls = {"n": 0}

            def fn(x):
                calls["n"] += 1
                return ("r", x)
            cur = env.base
            for L in base_chain:
                cur = env.apply(cur, L)
            b0 = cur.bind(fn)
            derived = []
            for dc in d_chains:
                d = b0
                for L in dc:
                    d = env.apply(d, L)
                derived.append((dc, d))
            order = [("base", base_chain, b0)] + [("derived%d" % i, base_chain + dc, d) for i, (dc, d) in enumerate(derived)]
            rng.shuffle(order)
            for name, full_chain, bc in order:
                env.own_chain(bc)
                before = calls["n"]
                o = get(bc(5))
                # reference: fresh executor with the full chain in submit form
                ref = run_form(ctx, "submit", "sync", [dict(L, k=L["k"]) for L in full_chain], ["ret"], "function", (5,), {})
                want = ref["outcome"]
                # the reference callable returns ('r', (5,), []) - normalise the innermost payload
                def norm(v):
                    if isinstance(v, tuple) and len(v) == 2 and v[0] == "r":
                        return "R"
                    if isinstance(v, tuple) and len(v) == 3 and v[0] == "r":
                        return "R"
                    if isinstance(v, tuple):
                        return tuple(norm(x) for x in v)
                    return v
                res.execs += 1
                if norm(o) != norm(want):
                    res.violation("bind-alias", "base chain %s, derived %s: calling %s gives %s, its own chain in submit form gives %s"
                                  % ([L["t"] for L in base_chain], [[L["t"] for L in dc] for dc in d_chains], name, o, want))
                if calls["n"] - before != 1:
                    res.violation("bind-alias/invocations", "calling %s invoked fn %d times" % (name, calls["n"] - before))
                res.key("alias", str([L["t"] for L in base_chain]), str([[L["t"] for L in dc] for dc in d_chains]), name)
            check_common(res)
        finally:
            end(ctx)


PREFIX = {"retry": "RetryExecutor-", "poll": "PollExecutor-", "throttle": "ThrottleExecutor-", "timeout": "TimeoutExecutor-"}


def run_names(case, res):
    ME = instr.ME
    rng = random.Random("c19n/%s/%s" % (case["seed"], case["idx"]))
    for it in range(case["n"]):
        begin("rt")
        ctx = Ctx()
        try:
            base_kind = rng.choice(["sync", "pool"])
            base_name = rng.choice([None, "alpha", "beta"])
            chain = gen_chain(rng, 5)
            bind_at = rng.choice([None, None] + list(range(len(chain) + 1)))
            flat = rng.random() < 0.5
            kw = {"name": base_name} if base_name else {}
            spelling = rng.choice(["keyword", "positional"])
            if base_kind == "sync":
                cur = ctx.own(ME.Executors.sync(**kw))
            elif spelling == "keyword":
                cur = ctx.own(ME.Executors.thread_pool(max_workers=1, **kw))
            else:
                cur = ctx.own(ME.Executors.thread_pool(1, **kw))
            expect = base_name or "default"
            env = Env(ctx, "sync", ["ret"], "function")
            created = []
            desc = []
            for i, L in enumerate(chain + [None]):
                if bind_at == i:
                    if flat:
                        cur = cur.flat_bind(lambda: ME.futures.f_return(1))
                        desc.append("bind(flat)")
                    elif rng.random() < 0.4:
                        class Named(object):
                            _name = "callable-own-name"

                            def __init__(self):
                                self._name = "callable-own-name"

                            def __call__(self):
                                return 1
                        cur = cur.bind(Named())
                        desc.append("bind(object with _name)")
                    else:
                        cur = cur.bind(lambda: 1)
                        desc.append("bind")
                    ex0 = getattr(cur, "_BoundCallable__executor", None)
                    if flat and getattr(ex0, "_name", expect) != expect:
                        res.violation("name-not-inherited/flat_map/flat_bind",
                                      "base=%s(name=%s) chain=%s: the flat_map layer created by flat_bind is named %r, expected %r"
                                      % (base_kind, base_name, desc, getattr(ex0, "_name", None), expect))
                if L is None:
                    break
                explicit = rng.choice([None, None, None, "n%d" % i])
                n0 = len(instr.TRACKED)
                if explicit:
                    # apply with an explicit name
                    t = L["t"]
                    if t == "map":
                        cur = cur.with_map(lambda x: x, name=explicit)
                    elif t == "flat_map":
                        cur = cur.with_flat_map(lambda x: ME.futures.f_return(x), name=explicit)
                    elif t == "retry":
                        cur = cur.with_retry(max_attempts=1, name=explicit)
                    elif t == "poll":
                        cur = cur.with_poll(lambda ds: [d.yield_result(d.result) for d in ds] and None, name=explicit)
                    elif t == "throttle":
                        cur = cur.with_throttle(2, name=explicit)
                    elif t == "timeout":
                        cur = cur.with_timeout(100.0, name=explicit)
                    else:
                        cur = cur.with_cancel_on_shutdown(name=explicit)
                    expect = explicit
                else:
                    cur = env.apply(cur, L)
                env.own_chain(cur)
                desc.append(L["t"] + ("(name=%s)" % explicit if explicit else ""))
                for th in instr.TRACKED[n0:]:
                    created.append((L["t"], th.name, expect))
                ex = cur if hasattr(cur, "shutdown") else getattr(cur, "_BoundCallable__executor", None)
                layer_name = getattr(ex, "_name", None)
                if layer_name is not None and layer_name != expect:
                    res.violation("name-not-inherited/%s%s" % (L["t"], "/after-bind" if any(d.startswith("bind") for d in desc) else ""),
                                  "base=%s(name=%s) chain=%s: layer %d (%s) is named %r, expected %r" % (base_kind, base_name, desc, i, L["t"], layer_name, expect))
            res.execs += 1
            for t, thname, exp in created:
                want = PREFIX[t] + exp
                if thname != want:
                    res.violation("thread-name/%s%s" % (t, "/after-bind" if any(d.startswith("bind") for d in desc) else ""),
                                  "base=%s(name=%s) chain=%s: %s layer created thread %r, expected %r" % (base_kind, base_name, desc, t, thname, want))
            if base_kind == "pool" and base_name:
                # pool threads are created on first use
                try:
                    if hasattr(cur, "submit"):
                        cur.submit(lambda: 1).result(10)
                    else:
                        cur().result(10)
                except Exception:
                    pass
                names = [th.name for th in threading.enumerate() if th.name.startswith("ThreadPoolExecutor-")]
                if not any(("ThreadPoolExecutor-%s" % base_name) in n for n in names):
                    res.violation("thread-name/pool", "thread pool named %r has worker threads %s" % (base_name, names[:4]))
            res.key("names", base_kind, base_name, str(desc))
            res.sample({"base": [base_kind, base_name], "chain": desc, "threads_created": [(t, n) for t, n, _ in created]}, limit=1)
            check_common(res)
        finally:
            end(ctx)


def run_case(case, res):
    k = case["kind"]
    if k == "diff":
        run_diff(case, res)
    elif k == "alias":
        run_alias(case, res)
    else:
        run_names(case, res)
