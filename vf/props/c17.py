"""C17 - f_proxy is transparent for forwarded operations; f_nocancel shields cancel.

Differential operator table: every forwarded operation applied to f_proxy(f) vs. to
f.result() over a pool of operand values of the builtin types (plus generated
ones): same value (and type) or same exception type.  Failed / pending / timing-out
futures; operations that must not block; f_nocancel."""
import math
import copy
import random
import operator
import itertools
import collections
import fractions
import concurrent.futures as cf

from .. import instr, harness
from ..harness import Ctx, SpyFuture, check_common, begin, end, drive, UserErrorA, outcome, outcome_repr
from ..instr import LOG, TR, LM

TITLE = "f_proxy / f_nocancel"
RULE = ("one execution = one forwarded operation applied to f_proxy(f) and to the plain value for one (value, operand) pair "
        "from the pool x pool table (plus seeded generated operands), in one state of f (resolved / failed / resolved later from "
        "another thread / never resolving with a timeout), or one non-blocking operation on a pending proxy, or one f_nocancel "
        "scenario; distinct & non-trivial = (operation, value, operand, state)")
REQUIRED = ["line_events"]

Pt = collections.namedtuple("Pt", ["x", "y"])


class Custom(object):
    def __init__(self, v):
        self.v = v
        self._private = ("private", v)
        self.public = ("public", v)

    def method(self, a, b=2):
        return ("method", self.v, a, b)

    def _hidden(self):
        return ("hidden", self.v)

    def __add__(self, o):
        return Custom(self.v + (o.v if isinstance(o, Custom) else o))

    def __truediv__(self, o):
        return ("custom-truediv", self.v, o)

    def __eq__(self, o):
        return isinstance(o, Custom) and o.v == self.v

    def __hash__(self):
        return hash(self.v)

    def __repr__(self):
        return "Custom(%r)" % (self.v,)

    def __trunc__(self):
        return 42

    def __len__(self):
        return 3


class RaisesAttr(object):
    @property
    def boom(self):
        raise AttributeError("boom")


def pool():
    return [0, 1, -3, 7, 2 ** 70, True, False, 0.0, 1.5, -2.25, float("inf"), complex(1, 2), "", "abc", "%s-%d", b"xy", [], [1, 2, 3],
            (), (4, 5), {}, {"k": 1, "j": 2}, set(), {1, 2}, frozenset([2, 3]), None, Custom(5), Pt(1, 2), range(4),
            fractions.Fraction(3, 4), [[1], [2]], "0", 255]


BINARY = [("add", operator.add), ("sub", operator.sub), ("mul", operator.mul), ("truediv", operator.truediv),
          ("floordiv", operator.floordiv), ("mod", operator.mod), ("divmod", divmod), ("pow", pow),
          ("lshift", operator.lshift), ("rshift", operator.rshift), ("and", operator.and_), ("xor", operator.xor),
          ("or", operator.or_), ("getitem", operator.getitem), ("contains", lambda a, b: b in a),
          ("round2", lambda a, b: round(a, b))]
UNARY = [("len", len), ("iter", lambda a: list(iter(a))), ("neg", operator.neg), ("pos", operator.pos), ("abs", abs),
         ("invert", operator.invert), ("complex", complex), ("int", int), ("float", float), ("round", round),
         ("trunc", math.trunc), ("floor", math.floor), ("ceil", math.ceil),
         ("attr_public", lambda a: a.public), ("attr_private", lambda a: a._private), ("method", lambda a: a.method(1, b=3)),
         ("hidden_method", lambda a: a._hidden()), ("keys", lambda a: sorted(a.keys())), ("upper", lambda a: a.upper()),
         ("asdict", lambda a: a._asdict()), ("fields", lambda a: a._fields), ("count", lambda a: a.count(1)),
         ("real", lambda a: a.real), ("missing_attr", lambda a: a.no_such_attribute), ("numerator", lambda a: a.numerator)]
TERNARY = [("pow3", lambda a, b, c: pow(a, b, c)), ("setitem", None), ("delitem", None)]


def cases(tier, seed):
    out = []
    n = len(pool())
    for i in range(n):
        out.append({"name": "proxy.ops/value#%d" % i, "kind": "ops", "vi": i, "gen": 20 if tier == "quick" else 20000})
    for st in ("failed", "later", "timeout", "timeout0"):
        out.append({"name": "proxy.state/%s" % st, "kind": "state", "state": st})
    out.append({"name": "proxy.pending/nonblocking", "kind": "pending"})
    out.append({"name": "nocancel", "kind": "nocancel"})
    # f is a future of this library whose work ends on another thread while f is being wrapped (both sides suspended)
    for layers in (["map"], ["flat_map"], ["throttle"], ["timeout"]):
        for how in ("value", "exc"):
            for op in ("f_proxy", "f_nocancel"):
                out.append({"name": "wrap-nested/%s/%s/%s" % (">".join(layers), how, op), "kind": "attach-nested", "layers": layers, "how": how,
                            "direction": "end-first", "op": op, "budget": 150 if tier == "quick" else 1500})
    return out


def run(fn, *a):
    try:
        return ("value", fn(*a))
    except BaseException as e:
        return ("exc", e)


def same(a, b):
    if a[0] != b[0]:
        return False
    if a[0] == "exc":
        return type(a[1]) is type(b[1])
    x, y = a[1], b[1]
    if type(x) is not type(y):
        return False
    if isinstance(x, float) and x != x:
        return y != y
    try:
        return x == y or (repr(x) == repr(y))
    except Exception:
        return repr(x) == repr(y)


def show(o):
    return "%s:%s" % (o[0], (type(o[1]).__name__ + " " + repr(o[1])[:60]))


def compare(res, F, name, fn, v, others, state="resolved"):
    plain = run(fn, copy.deepcopy(v), *others)
    f = F.f_return(copy.deepcopy(v))
    p = F.f_proxy(f)
    prox = run(fn, p, *others)
    res.execs += 1
    if not same(plain, prox):
        key = "op/%s" % name
        res.violation(key, "%s(%r%s): on the plain value -> %s; on f_proxy -> %s"
                      % (name, v, "".join(", %r" % (o,) for o in others), show(plain), show(prox)))
        return False
    return True


def run_ops(case, res):
    F = instr.ME.futures
    begin("rt")
    ctx = Ctx()
    try:
        vals = pool()
        v = vals[case["vi"]]
        rng = random.Random("c17/%s/%s" % (case["seed"], case["vi"]))
        for name, fn in UNARY:
            compare(res, F, name, fn, v, [])
            res.key(name, case["vi"])
        others = pool() + [2, 3, -1, 0.5, "b", slice(0, 2), 1.0, 10]
        for name, fn in BINARY:
            for oi, o in enumerate(others):
                if name in ("lshift", "pow", "mul", "round2") and isinstance(o, int) and not isinstance(o, bool) and abs(o) > 10 ** 6:
                    continue  # huge results only cost time
                if name in ("pow",) and isinstance(v, int) and abs(v) > 10 ** 6 and isinstance(o, (int, float)) and o > 5:
                    continue
                compare(res, F, name, fn, v, [o])
                res.key(name, case["vi"], oi)
        # three-operand pow, item assignment / deletion (compare the mutated container)
        for b, c in ((2, 5), (3, 7), (2, 0), (-1, 7), ("x", 2)):
            compare(res, F, "pow3", lambda a, b=b, c=c: pow(a, b, c), v, [])
        for key_, val_ in ((0, "new"), ("k", 9), (5, 1), (-1, None), (slice(0, 1), [7, 8])):
            def setit(a, key_=key_, val_=val_):
                a[key_] = val_
                return a.result() if hasattr(a, "add_done_callback") else a
            def delit(a, key_=key_):
                del a[key_]
                return a.result() if hasattr(a, "add_done_callback") else a
            compare(res, F, "setitem", setit, v, [])
            compare(res, F, "delitem", delit, v, [])
        # seeded generated operands
        for g in range(case["gen"]):
            name, fn = rng.choice(BINARY)
            o = gen_value(rng)
            if name in ("lshift", "pow", "mul") and isinstance(o, int) and abs(o) > 64:
                o = o % 64
            if name == "pow" and isinstance(v, (int, float)) and not isinstance(v, bool) and abs(v) > 10 ** 6:
                continue
            compare(res, F, name, fn, v, [o])
            res.key("gen", name, case["vi"], g)
        res.sample({"value": repr(v)[:60], "unary_ops": len(UNARY), "binary_ops": len(BINARY), "operands_per_binary_op": len(others),
                    "generated_operands": case["gen"]}, limit=1)
        check_common(res)
    finally:
        end(ctx)


def gen_value(rng):
    k = rng.randrange(9)
    if k == 0:
        return rng.randint(-1000, 1000)
    if k == 1:
        return rng.choice([0.25, -7.5, 1e10, 3.0, -0.0])
    if k == 2:
        return "".join(rng.choice("ab%sd ") for _ in range(rng.randint(0, 5)))
    if k == 3:
        return [rng.randint(0, 3) for _ in range(rng.randint(0, 4))]
    if k == 4:
        return tuple(rng.randint(0, 3) for _ in range(rng.randint(0, 3)))
    if k == 5:
        return {rng.randint(0, 3): rng.randint(0, 3) for _ in range(rng.randint(0, 3))}
    if k == 6:
        return set(rng.randint(0, 5) for _ in range(rng.randint(0, 4)))
    if k == 7:
        return rng.choice([True, False, None, b"q", complex(0, 1), fractions.Fraction(1, 3)])
    return Custom(rng.randint(0, 9))


def run_state(case, res):
    F = instr.ME.futures
    st = case["state"]
    ops = [("len", len, [1, 2, 3]), ("getitem", lambda a: a[1], [1, 2, 3]), ("add", lambda a: a + 1, 4), ("method", lambda a: a.upper(), "abc"),
           ("int", int, 7.5), ("contains", lambda a: 2 in a, {2, 3}), ("truediv", lambda a: a / 2.0, 1), ("asdict", lambda a: a._asdict(), Pt(1, 2)),
           ("attr", lambda a: a.real, 5), ("iter", lambda a: list(a), (1, 2)), ("neg", operator.neg, 3)]
    for name, fn, v in ops:
        begin("rt")
        ctx = Ctx()
        try:
            res.execs += 1
            if st == "failed":
                e = UserErrorA("failed input")
                p = F.f_proxy(F.f_return_error(e))
                r = run(fn, p)
                if r[0] != "exc" or r[1] is not e:
                    res.violation("failed-future/%s" % name, "%s on a proxy of a failed future gave %s instead of raising the future's exception" % (name, show(r)))
                e2 = AttributeError("attr error from the future")
                p2 = F.f_proxy(F.f_return_error(e2))
                r2 = run(fn, p2)
                if r2[0] != "exc" or r2[1] is not e2:
                    res.violation("failed-future/%s" % name, "%s on a proxy of a future failed with AttributeError gave %s" % (name, show(r2)))
            elif st == "later":
                spy = SpyFuture("in")
                p = F.f_proxy(spy)
                box = {}
                a = ctx.actor("U", lambda: box.setdefault("r", run(fn, p)))
                a.external = True
                a.go()
                import time as _t
                _t.sleep(0.02)
                blocked = not a.finished
                spy.set_result(copy.deepcopy(v))
                instr._RealThread.join(a, 10)
                plain = run(fn, copy.deepcopy(v))
                if "r" not in box:
                    res.violation("pending-then-resolved/hang/%s" % name, "%s on a pending proxy did not return after the future was resolved" % name)
                elif not same(plain, box["r"]):
                    res.violation("pending-then-resolved/%s" % name, "%s: plain %s, proxy (resolved later) %s" % (name, show(plain), show(box["r"])))
                if not blocked:
                    res.count("later_op_returned_before_resolution")
            else:
                spy = SpyFuture("never")
                t = 0 if st == "timeout0" else 0.05
                p = F.f_proxy(spy, timeout=t)
                box = {}
                a = ctx.actor("U", lambda: box.setdefault("r", run(fn, p)))
                a.external = True
                a.go()
                instr._RealThread.join(a, 5.0)
                if "r" not in box:
                    res.violation("timeout-not-honoured/%s" % name, "%s on f_proxy(never, timeout=%s) still blocked after 5 s" % (name, t))
                    spy.set_result(copy.deepcopy(v))
                    instr._RealThread.join(a, 5.0)
                elif box["r"][0] != "exc" or not isinstance(box["r"][1], cf.TimeoutError):
                    res.violation("timeout-wrong-result/%s" % name, "%s on f_proxy(never, timeout=%s) gave %s" % (name, t, show(box["r"])))
            res.key("state", st, name)
        finally:
            end(ctx)


def run_pending(case, res):
    F = instr.ME.futures
    ops = [("bool", bool), ("repr", repr), ("str", str), ("eq", lambda p: p == p), ("ne", lambda p: p != 3), ("hash", hash),
           ("unknown_dunder", lambda p: getattr(p, "__unknown__", "dflt")), ("dunder_wrapped", lambda p: getattr(p, "__wrapped__", "dflt")),
           ("format", lambda p: "%s" % (p,)), ("in_dict", lambda p: {p: 1}[p]), ("in_list", lambda p: p in [1, p]), ("done", lambda p: p.done()),
           ("isinstance", lambda p: isinstance(p, cf.Future)), ("if", lambda p: 1 if p else 0)]
    for name, fn in ops:
        begin("rt")
        ctx = Ctx()
        try:
            spy = SpyFuture("pending")
            waited = []
            orig = spy.result

            def spying_result(timeout=None):
                waited.append(timeout)
                return orig(timeout)
            spy.result = spying_result
            p = F.f_proxy(spy)
            box = {}
            a = ctx.actor("U", lambda: box.setdefault("r", run(fn, p)))
            a.external = True
            a.go()
            instr._RealThread.join(a, 3.0)
            res.execs += 1
            if "r" not in box:
                res.violation("blocks-on-pending/%s" % name, "%s(f_proxy(pending)) blocked" % name)
                spy.set_result(1)
                instr._RealThread.join(a, 3.0)
            else:
                if name in ("bool", "if") and box["r"] not in (("value", True), ("value", 1)):
                    res.violation("truth-value/%s" % name, "bool(f_proxy(pending)) -> %s" % show(box["r"]))
                if box["r"][0] == "exc" and name not in ():
                    res.violation("raises-on-pending/%s" % name, "%s(f_proxy(pending)) raised %r" % (name, box["r"][1]))
            if spy.done():
                res.violation("resolves-future/%s" % name, "%s(f_proxy(pending)) resolved the future" % name)
            res.key("pending", name)
        finally:
            end(ctx)


def run_nocancel(case, res):
    F = instr.ME.futures
    hows = ["value", "exc", "pending-cancel", "cancel-then-value", "cancel-twice-threads", "inner-cancelled-then-cancel"]
    # the same with the shielded future already running when it is wrapped (its cancel() is still never to be called:
    # futures of this library, e.g. a retry in progress, react to a request even while running)
    for how, running in [(h, False) for h in hows] + [(h, True) for h in hows if h != "inner-cancelled-then-cancel"]:
        begin("rt")
        ctx = Ctx()
        try:
            spy = SpyFuture("in")
            if running:
                spy.set_running_or_notify_cancel()
            nc = F.f_nocancel(spy)
            if nc is spy:
                res.violation("nocancel-not-wrapped", "f_nocancel(f) handed back f itself (%s, f %s)" % (how, "running" if running else "pending"))
            e = UserErrorA("x")
            rets = []
            if how == "value":
                rets.append(nc.cancel())
                spy.set_result(("v", 1))
            elif how == "exc":
                rets.append(nc.cancel())
                spy.set_exception(e)
            elif how == "pending-cancel":
                rets.append(nc.cancel())
                rets.append(nc.cancel())
            elif how == "inner-cancelled-then-cancel":
                # the shielded future is cancelled by its owner; the wrapper mirrors that; cancel() on the
                # wrapper still has to say False
                super(SpyFuture, spy).cancel()
                spy.set_running_or_notify_cancel()
                rets.append(nc.cancel())
                rets.append(nc.cancel())
            elif how == "cancel-then-value":
                rets.append(nc.cancel())
                spy.set_result(("v", 2))
                rets.append(nc.cancel())
            else:
                acts = [ctx.actor("C%d" % k, lambda: rets.append(nc.cancel())).go() for k in range(3)]
                drive(acts, timeout=10)
                spy.set_result(("v", 3))
            res.execs += 1
            if any(r is not False for r in rets):
                res.violation("nocancel-cancel-returned-%s" % ([r for r in rets if r is not False][0],), "f_nocancel(f).cancel() returned %s (%s)" % (rets, how))
            if spy.cancel_calls and how != "inner-cancelled-then-cancel":
                res.violation("nocancel-leak", "cancel() reached the shielded future (%s)" % how)
            o = outcome(nc)
            want = {"value": ("value", ("v", 1)), "cancel-then-value": ("value", ("v", 2)), "cancel-twice-threads": ("value", ("v", 3))}.get(how)
            if want and o != want:
                res.violation("nocancel-outcome", "f_nocancel mirrors %s, input had %s (%s)" % (outcome_repr(o), want, how))
            if how == "exc" and (o[0] != "exc" or o[1] is not e):
                res.violation("nocancel-outcome", "f_nocancel mirrors %s, input failed with %r" % (outcome_repr(o), e))
            if how == "pending-cancel" and (nc.cancelled() or nc.done()):
                res.violation("nocancel-cancelled", "f_nocancel future is %s after cancel() on a pending input" % outcome_repr(o))
            res.key("nocancel", how, running)
        finally:
            end(ctx)
    # f fails with an exception that is not an Exception subclass (what a pool stores when a task raises SystemExit ...)
    class Stop(BaseException):
        pass
    for wrapper in ("proxy", "nocancel"):
        for when in ("later", "before"):
            begin("rt")
            ctx = Ctx()
            try:
                g = SpyFuture("g")
                e = Stop("task exit")
                if when == "before":
                    g.set_exception(e)
                try:
                    w = F.f_proxy(g, timeout=2.0) if wrapper == "proxy" else F.f_nocancel(g)
                except BaseException as ex:
                    res.violation("wrapper-constructor-raised/%s" % type(ex).__name__, "f_%s(g) with g failed by a BaseException raised %r" % (wrapper, ex))
                    res.execs += 1
                    continue
                try:
                    if when == "later":
                        g.set_exception(e)
                except BaseException as ex:
                    res.violation("exception-escaped/set_exception/%s" % type(ex).__name__,
                                  "completing g let %r escape from the wrapper's done-callback" % (ex,))
                res.execs += 1
                o = outcome(w)
                if o[0] != "exc" or o[1] is not e:
                    res.violation("base-exception-not-mirrored/%s" % wrapper, "f_%s(g): g failed (%s) with %r, the wrapper is %s"
                                  % (wrapper, when, e, outcome_repr(o)))
                res.key("base-exception", wrapper, when)
            finally:
                end(ctx)
    # wrappers stacked on a proxy whose future fails later: the outer wrapper mirrors the failure
    for outer in ("nocancel", "proxy", "proxy+nocancel"):
        for when in ("later", "before"):
            begin("rt")
            ctx = Ctx()
            try:
                g = SpyFuture("g")
                e = UserErrorA("g failed")
                if when == "before":
                    g.set_exception(e)
                try:
                    inner = F.f_proxy(g)
                    w = F.f_nocancel(inner) if outer == "nocancel" else F.f_proxy(inner, timeout=2.0)
                    if outer == "proxy+nocancel":
                        w = F.f_nocancel(w)
                except BaseException as ex:
                    res.violation("wrapper-constructor-raised/%s" % type(ex).__name__,
                                  "%s over f_proxy(g) with g already failed raised %r at construction" % (outer, ex))
                    res.execs += 1
                    continue
                if when == "later":
                    g.set_exception(e)
                res.execs += 1
                o = outcome(w)
                if o[0] != "exc" or o[1] is not e:
                    res.violation("nested-wrapper-outcome", "%s over f_proxy(g): g failed (%s the wrappers were made) with %r, the outer wrapper is %s"
                                  % (outer, when, e, outcome_repr(o)))
                res.key("nested-wrapper", outer, when)
            finally:
                end(ctx)


def run_case(case, res):
    k = case["kind"]
    if k == "attach-nested":
        # (C03's scenario: the wrapper is the "chained" future; it must be done once f is)
        from . import c03
        return c03.run_attach_nested(case, res)
    if k == "ops":
        run_ops(case, res)
    elif k == "state":
        run_state(case, res)
    elif k == "pending":
        run_pending(case, res)
    else:
        run_nocancel(case, res)
