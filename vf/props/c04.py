"""C04 - no deadlock among API calls and internal threads, incl. nested submission.

* ``api.pair``      one-preemption sweeps over ordered pairs of client
                    operations (and delegate completions) on single layers and
                    2-layer stacks over a manual delegate, virtual time.
* ``nested.submit`` user code at every call site submits to the executor that
                    is running it (sync and thread-pool bases).
* ``api.fuzz``      3-thread programs under yield injection (thread-pool base).
Verdict = lock monitor (definite wait-for cycle / self-acquisition) or global
quiescence with an unfinished API call and no timer left."""
import random
import threading
import itertools
from concurrent.futures import TimeoutError as FTimeout, CancelledError

from .. import instr, harness, stacks
from ..harness import (Sweep, Ctx, ManualExecutor, call, check_common, begin, end, drive,
                       Recorded, UserErrorA, hang_report)
from ..instr import LOG, TR, LM, Inconclusive

TITLE = "no deadlock"
RULE = ("one execution = one stack, one ordered pair of operations (victim op paused at one statement boundary of library "
        "code, other op run until it finishes or blocks), or one nested-submission program, or one fuzzed 3-thread program; "
        "distinct & non-trivial = (stack, op pair, placement site) where the second op actually ran while the first was "
        "inside the library, or (stack, nesting site) where the nested submit was reached")
REQUIRED = ["line_events", "lock_acquisitions", "vevent_waits"]

SINGLE = ["map", "flat_map", "retry", "poll", "throttle", "timeout", "cos"]
OPS = ["submit", "cancel", "add_cb", "result", "complete", "shutdown", "cancel_inner", "timer"]
TRIPLES = [["map", "cos", "map"], ["retry", "timeout", "map"], ["poll", "timeout", "flat_map"], ["throttle", "timeout", "poll"]]


def cases(tier, seed):
    out = []
    rng = random.Random("c04/%s" % seed)
    stacks1 = [[t] for t in SINGLE]
    pairs2 = [list(p) for p in itertools.product(SINGLE, SINGLE)]
    if tier == "quick":
        stacks2 = rng.sample(pairs2, 6)
        cap = 14
    else:
        stacks2 = pairs2
        cap = 60
    for layers in stacks1 + stacks2 + TRIPLES:
        for a in OPS:
            if a == "timer":
                continue
            # one case per (stack, victim op): all interventions inside
            out.append({"name": "api.pair/%s/%s" % (">".join(layers), a), "kind": "pair", "layers": layers,
                        "victim": a, "cap": cap if len(layers) == 1 else max(6, cap // 2)})
        out.append({"name": "api.pair/%s/worker" % ">".join(layers), "kind": "pair", "layers": layers,
                    "victim": "worker", "cap": cap})
        if "timeout" in layers:
            out.append({"name": "api.pair/%s/worker-timer" % ">".join(layers), "kind": "pair", "layers": layers,
                        "victim": "worker-timer", "cap": cap})
    # the delegate refuses a hand-over made by an internal thread (retry after back-off, throttle hand-over)
    rst = [["retry"], ["retry", "map"], ["retry", "flat_map"], ["retry", "timeout"], ["retry", "cos"], ["map", "retry"], ["retry", "throttle"],
           ["throttle"], ["throttle", "map"], ["throttle", "retry"]]
    if tier == "thorough":
        rst += [["retry", x, y] for x in SINGLE for y in ("map", "cos", "timeout")]
    for layers in rst:
        for resub in (False, True):
            for victim in ("cancel", "submit", "add_cb", "shutdown", "worker-refused"):
                out.append({"name": "api.refused/%s/%s%s" % (">".join(layers), victim, "/cb-resubmits" if resub else ""), "kind": "refused",
                            "layers": layers, "victim": victim, "resub": resub, "cap": 16 if tier == "quick" else None})
    for base in ("sync", "pool"):
        for layers in stacks1 + (stacks2 if tier == "thorough" else stacks2[:4]):
            out.append({"name": "nested.submit/%s/%s" % (base, ">".join(layers)), "kind": "nested", "base": base,
                        "layers": layers})
    for above in (["map"], ["flat_map"], ["timeout"], ["cos"], ["throttle"], ["map", "map"]):
        out.append({"name": "nested.race/retry>%s" % ">".join(above), "kind": "nestedrace", "above": above,
                    "cap": 20 if tier == "quick" else None})
    # a second client submits while a callable, run inline by the retry thread, submits again
    for above in ([], ["map"], ["cos"]):
        for target in ("top", "retry"):
            out.append({"name": "nested.second-client/retry>%s/%s" % (">".join(above), target), "kind": "secondclient", "above": above, "target": target})
    for layers in stacks1 + (stacks2 if tier == "thorough" else stacks2[:6]):
        out.append({"name": "nested.cb/%s" % ">".join(layers), "kind": "nestedcb", "layers": layers})
    # a raising poll function fails the futures it was shown; their done-callbacks (which submit again) run on the poll
    # thread, while a client is inside submit() with a delegate whose futures are already done
    for layers in (["poll"], ["poll", "map"], ["map", "poll"], ["poll", "retry"], ["poll", "cos"]):
        for direction in ("submit|poll", "poll|submit"):
            out.append({"name": "nested.poll-raise/%s/%s" % (">".join(layers), direction), "kind": "pollraisecb", "layers": layers,
                        "dir": direction, "cap": None})
    # recorded finding: a blocking throttle below a retry layer (see known_findings.json)
    for above in ([], ["map"], ["cos"]):
        for n in (3, 5):
            out.append({"name": "api.blocking-below-retry/%s/n=%d" % (">".join(["throttle", "retry"] + above), n), "kind": "blockretry",
                        "above": above, "n": n})
    for above in ([], ["map"]):
        for how in ("value", "exc"):
            out.append({"name": "api.blocking-below-retry-manual/%s/%s" % (">".join(["throttle", "retry"] + above), how), "kind": "blockretrym",
                        "above": above, "how": how})
    # a consumer chains onto / waits for a future while its work ends on another thread, both suspended mid-operation
    for layers in (["map"], ["flat_map"], ["timeout"], ["throttle"], ["map", "map"]):
        for op in ("cb", "f_map"):
            out.append({"name": "api.attach-nested/%s/%s" % (">".join(layers), op), "kind": "attach-nested", "layers": layers, "how": "value",
                        "direction": "end-first", "op": op, "budget": 120 if tier == "quick" else 1500})
    nf = 16 if tier == "quick" else 1500
    for i in range(nf):
        out.append({"name": "api.fuzz/%d" % i, "kind": "fuzz", "idx": i, "n": 12 if tier == "quick" else 30})
    return out


def layer_specs(layers):
    out = []
    for k, t in enumerate(layers):
        L = {"t": t, "k": k}
        if t == "retry":
            L.update(max_attempts=2, sleep=0.5)
        if t == "throttle":
            L.update(count=2)
        if t == "poll":
            L.update(interval=5.0)
        if t == "timeout":
            L.update(timeout=100.0)
        out.append(L)
    return out


def fire_next_timer(only=None):
    """Jump the virtual clock to the earliest pending timed wait (optionally only of
    threads whose role contains ``only``) and wake it as timed out."""
    with instr.CV:
        cands = [x for x in instr.CLOCK.waiters if not x.woken and x.deadline is not None
                 and (only is None or only in getattr(x.thread, "vf_role", ""))]
        if not cands:
            return False
        x = min(cands, key=lambda x: x.deadline)
        if instr.CLOCK.now < x.deadline:
            instr.CLOCK.now = x.deadline
        x.woken = True
        x.timed_out = True
        instr.CLOCK.timers_fired += 1
        instr.CV.notify_all()
    return True


class PairScenario(object):
    """Stack over a manual delegate; f0 submitted and pending at the delegate;
    victim op and intervention op act on f0 / the executor."""

    def __init__(self, layers, a, b):
        self.layers, self.a, self.b = layers, a, b
        self.spec = {"base": "me", "layers": layer_specs(layers)}

    def setup(self):
        ctx = Ctx()
        b = stacks.build(ctx, self.spec)
        ctx.b = b
        ctx.me = b.base
        ctx.fn = Recorded("job", lambda idx, *a: ("v", idx))
        ctx.f0 = b.top.submit(ctx.fn, 0)
        ctx.f1 = b.top.submit(ctx.fn, 1)
        ctx.extra = []
        instr.settle()
        return ctx

    def op(self, ctx, name, who):
        top, me = ctx.b.top, ctx.me
        try:
            if name == "submit":
                ctx.extra.append(call("submit", top.submit, ctx.fn, 7, _tag=who))
            elif name == "cancel":
                call("cancel", ctx.f0.cancel, _tag=who)
            elif name == "add_cb":
                call("add_cb", ctx.f0.add_done_callback, lambda f: LOG.add("cb", who=who), _tag=who)
            elif name == "result":
                try:
                    call("result", ctx.f0.result, 0, _tag=who)
                except (FTimeout, CancelledError, UserErrorA):
                    pass
            elif name == "complete":
                p = me.pending()
                if p:
                    me.complete(p[0], ("done", p[0]))
            elif name == "cancel_inner":
                p = me.pending()
                if p:
                    me.fut(p[0]).cancel()
            elif name == "shutdown":
                call("shutdown", top.shutdown, True, _tag=who)
            elif name == "timer":
                fire_next_timer()
            elif name == "notify":
                for ex in ctx.b.executors:
                    if hasattr(ex, "notify"):
                        ex.notify()
        except RuntimeError as e:
            if "cannot schedule new futures" not in str(e):
                raise

    def victim_role(self, ctx):
        if self.a == "worker":
            ths = [t for t in instr.TRACKED if t.vf_started]
            return ths[-1].vf_role if ths else "V"
        if self.a == "worker-timer":
            ths = [t for t in instr.TRACKED if t.vf_started and "Timeout" in t.vf_role]
            return ths[-1].vf_role if ths else "V"
        return "V"

    def start_victim(self, ctx):
        if self.a == "worker":
            # trigger: a delegate completion and a submit wake the workers
            def trigger():
                self.op(ctx, "complete", "T")
                self.op(ctx, "submit", "T")
            return ctx.actor("T", trigger).go()
        if self.a == "worker-timer":
            return ctx.actor("T", fire_next_timer, "Timeout").go()
        return ctx.actor("V", self.op, ctx, self.a, "V").go()

    def intervene(self, ctx):
        self.op(ctx, self.b, "I")

    def hang_key(self, ctx, stuck):
        return "%s/%s|%s" % (">".join(self.layers), self.a, self.b)

    def finish(self, ctx):
        # drive to completion: finish all delegate work, let time pass, shut down
        me = ctx.me
        for _ in range(6):
            instr.settle()
            for i in me.pending():
                me.complete(i, ("fin", i))
            instr.advance(30.0)
        a = ctx.actor("F", self.op, ctx, "shutdown", "F").go()
        why = drive([a])
        ctx.finish_state = why

    def oracle(self, ctx, res, info):
        for a in (info.get("victim"), info.get("iact")):
            if a is not None and a.error is not None and not isinstance(a.error, instr.DeadlockBroken):
                # an exception out of the API is not a deadlock: observed, not judged here (C02/C18 judge it)
                res.count("foreign.exception_from_api/%s" % type(a.error).__name__)
        if ctx.finish_state != "ok":
            res.violation("hang/final-shutdown/%s" % ">".join(self.layers),
                          "shutdown(wait=True) after the pair did not return (%s): %s" % (ctx.finish_state, instr.describe_threads()),
                          stacks=hang_report(ctx.actors))
            harness.mark_recycle()
        if info.get("hit"):
            res.key(">".join(self.layers), self.a, self.b, info["site"])
        res.sample({"stack": self.layers, "victim": self.a, "intervention": self.b, "placement": info.get("site"),
                    "intervention_state_when_victim_released": info.get("istate")}, limit=2)


class RefusedScenario(PairScenario):
    """f0 waits inside the library for an internal thread to hand it to the delegate (a retry in back-off, a
    throttled job behind a full queue); the delegate will refuse that hand-over.  The hand-over is raced against
    client operations on the outermost future / executor."""

    def __init__(self, case, b):
        PairScenario.__init__(self, case["layers"], case["victim"], b)
        self.case = case
        for L in self.spec["layers"]:
            if L["t"] == "throttle":
                L["count"] = 1

    def setup(self):
        ctx = Ctx()
        b = stacks.build(ctx, self.spec)
        ctx.b = b
        ctx.me = b.base
        ctx.fn = Recorded("job", lambda idx, *a: ("v", idx))
        ctx.extra = []
        layers = self.layers
        if "throttle" in layers:
            # a filler occupies the only slot: f0 is queued in the throttle
            ctx.f1 = b.top.submit(ctx.fn, 1)
            instr.settle()
        ctx.f0 = b.top.submit(ctx.fn, 0)
        if "throttle" not in layers:
            ctx.f1 = b.top.submit(ctx.fn, 1)
        instr.settle()
        if self.case["resub"]:
            def cb(f):
                try:
                    ctx.extra.append(call("submit", b.top.submit, ctx.fn, 9, _tag="cb"))
                except RuntimeError:
                    pass
            ctx.f0.add_done_callback(cb)
        ctx.me.refuse = True
        return ctx

    def handover(self, ctx):
        """Make the internal thread attempt the hand-over of f0."""
        me = ctx.me
        if "throttle" in self.layers:
            # free the slot: the filler's delegate item completes
            for k in me.pending():
                if me.items[k][2][:1] == (1,) or True:
                    me.complete(k, ("filler", k))
                    break
        else:
            # f0's first attempt fails -> back-off -> the retry thread re-submits when its timer fires
            for k in me.pending():
                if me.items[k][2][:1] == (0,):
                    me.fail(k, UserErrorA("attempt0"))
                    break
            # (this runs inside an actor, which settle() would count as running: wait for the retry thread's back-off instead)
            instr.wait_for(lambda: instr.timed_waiter("Retry") or instr.quiescent_but_me())
            fire_next_timer("Retry")

    def victim_role(self, ctx):
        if self.a == "worker-refused":
            want = "Throttle" if "throttle" in self.layers and "retry" not in self.layers else None
            ths = [t for t in instr.TRACKED if t.vf_started and (want is None or want in t.vf_role)]
            if "retry" in self.layers:
                ths = [t for t in ths if "Retry" in t.vf_role] or ths
            return ths[-1].vf_role if ths else "V"
        return "V"

    def start_victim(self, ctx):
        if self.a == "worker-refused":
            return ctx.actor("T", self.handover, ctx).go()
        return ctx.actor("V", self.op, ctx, self.a, "V").go()

    def intervene(self, ctx):
        if self.b == "handover":
            self.handover(ctx)
        else:
            self.op(ctx, self.b, "I")

    def hang_key(self, ctx, stuck):
        return "refused/%s/%s|%s" % (">".join(self.layers), self.a, self.b)

    def finish(self, ctx):
        ctx.me.refuse = False
        PairScenario.finish(self, ctx)

    def oracle(self, ctx, res, info):
        PairScenario.oracle(self, ctx, res, info)
        res.count("refused_handovers", len(LOG.select("me.submit.refused")))


def run_refused(case, res):
    rng = random.Random("c04r/%s/%s" % (case["seed"], case["name"]))
    if case["victim"] == "worker-refused":
        others = ["cancel", "submit", "add_cb", "shutdown", "result"]
    else:
        others = ["handover"]
    for b in others:
        sw = Sweep(RefusedScenario(case, b), res, "vt", case["name"] + "|" + b)
        sw.run(case["cap"], rng, per_site=1)
        if harness.need_recycle():
            return


def run_pair(case, res):
    rng = random.Random("c04/%s/%s" % (case["seed"], case["name"]))
    a = case["victim"]
    others = [o for o in OPS if not (o == "shutdown" and a == "shutdown")]
    if "poll" in case["layers"]:
        others = others + ["notify"]
    for b in others:
        sw = Sweep(PairScenario(case["layers"], a, b), res, "vt", case["name"] + "|" + b)
        sw.run(case["cap"], rng, per_site=1)
        if harness.need_recycle():
            return


# --------------------------------------------------------------------------
# nested submission
# --------------------------------------------------------------------------
NEST_SITES = ["callable", "map_fn", "error_fn", "flat_fn", "poll_fn", "cancel_fn", "should_retry", "sleep_time",
              "count_fn", "cb_before", "cb_after"]


def nested_suffix(site, layers, target_level):
    """@nested/<site>/<relation of the target executor to the retry layer>"""
    rel = "no-retry"
    if "retry" in layers:
        r = layers.index("retry") + 1  # executor index of the (lowest) retry layer
        rel = "target-above-retry" if target_level > r else ("target-is-retry" if target_level == r else "target-below-retry")
    from . import c04 as _self  # noqa
    inv = [d for d in LM.deadlocks if any("RetryExecutor" in t for t in d["threads"])]
    return "@nested/%s/%s%s" % (site, rel, "/retry-thread-in-cycle" if inv else "")


class NestedRaceScenario(object):
    """sync > retry > X: the callable, run inline by the retry thread, submits to the outermost executor
    while the client is still inside that executor's submit() for the same future."""

    def __init__(self, case):
        self.case = case

    def setup(self):
        ME = instr.ME
        ctx = Ctx()
        base = ctx.own(ME.Executors.sync())
        cur = ctx.own(base.with_retry(max_attempts=1))
        for t in self.case["above"]:
            if t == "map":
                cur = cur.with_map(lambda x: x)
            elif t == "flat_map":
                cur = cur.with_flat_map(lambda x: ME.futures.f_return(x))
            elif t == "timeout":
                cur = cur.with_timeout(100.0)
            elif t == "cos":
                cur = cur.with_cancel_on_shutdown()
            elif t == "throttle":
                cur = cur.with_throttle(2)
            ctx.own(cur)
        ctx.top = cur
        ctx.nested = []
        ctx.done = {"n": 0}

        def job():
            if ctx.done["n"] == 0:
                ctx.done["n"] += 1
                try:
                    ctx.nested.append(ctx.top.submit(lambda: "nested"))
                except RuntimeError:
                    pass
            return 1
        ctx.job = job
        return ctx

    def victim_role(self, ctx):
        return "V"

    def start_victim(self, ctx):
        def client():
            ctx.f = ctx.top.submit(ctx.job)
        return ctx.actor("V", client).go()

    def intervene(self, ctx):
        # nothing to do: the retry thread runs the callable on its own while the client is suspended
        import time as _t
        _t.sleep(0.03)

    def finish(self, ctx):
        import time as _t
        t_end = _t.time() + 5
        while _t.time() < t_end and not (getattr(ctx, "f", None) is not None and ctx.f.done()):
            _t.sleep(0.005)

    def hang_key(self, ctx, stuck):
        return "nested.race/%s" % ">".join(self.case["above"])

    def oracle(self, ctx, res, info):
        if info.get("hit"):
            res.key("nested.race", ">".join(self.case["above"]), info.get("site"))


class NestedRaceSweep(Sweep):
    pass


def run_secondclient(case, res):
    """sync > retry [> X]: the retry thread runs callable A inline; A submits again (to the retry executor or to the
    top of the stack) while a second client thread is inside submit() with its own callable."""
    ME = instr.ME
    begin("rt")
    ctx = Ctx()
    try:
        base = ctx.own(ME.Executors.sync())
        retry = ctx.own(base.with_retry(max_attempts=1))
        cur = retry
        for t in case["above"]:
            cur = ctx.own(cur.with_map(lambda x: x) if t == "map" else cur.with_cancel_on_shutdown())
        target = retry if case["target"] == "retry" else cur
        go = instr._RealEvent()
        started = instr._RealEvent()
        nested = []

        def job_a():
            started.set()
            go.wait(10)
            try:
                nested.append(target.submit(lambda: "nested"))
            except RuntimeError:
                pass
            return "a"
        fa = cur.submit(job_a)
        if not started.wait(10):
            raise Inconclusive("callable A never started")
        b = ctx.actor("B", cur.submit, lambda: "b").go()
        harness.wait_done_or_blocked(b)
        go.set()
        why = drive([b], timeout=20, use_time=False)
        t_end = instr._real_monotonic() + 10
        while instr._real_monotonic() < t_end and not (fa.done() or LM.deadlocks):
            import time as _t
            _t.sleep(0.01)
        res.execs += 1
        inv = [d for d in LM.deadlocks if any("RetryExecutor" in t for t in d["threads"])]
        rel = "target-is-retry" if case["target"] == "retry" or not case["above"] else "target-above-retry"
        check_common(res, deadlock_suffix="@nested/callable/%s/second-client%s" % (rel, "/retry-thread-in-cycle" if inv else ""))
        if not LM.deadlocks and (why != "ok" or not fa.done()):
            res.violation("hang/nested.second-client/%s" % case["target"], "second client's submit() or callable A did not finish: %s"
                          % instr.describe_threads(), stacks=hang_report(ctx.actors))
        if LM.deadlocks:
            harness.mark_recycle()
        res.key("secondclient", ">".join(case["above"]), case["target"])
    finally:
        end(ctx)


def run_nested_race(case, res):
    rng = random.Random("c04nr/%s/%s" % (case["seed"], case["name"]))
    orig = harness.check_common
    suffix = "@nested/callable/target-above-retry/retry-thread-in-cycle"

    def cc(res_, prop_prefix="", deadlock_suffix=""):
        inv = [d for d in LM.deadlocks if any("RetryExecutor" in t for t in d["threads"])]
        return orig(res_, prop_prefix, suffix if inv else "@nested.race")
    harness.check_common = cc
    try:
        Sweep(NestedRaceScenario(case), res, "rt", case["name"]).run(case["cap"], rng, per_site=2)
    finally:
        harness.check_common = orig


def run_nested(case, res):
    ME = instr.ME
    Executors = ME.Executors
    layers = case["layers"]
    base_kind = case["base"]
    for site in NEST_SITES:
        need = {"map_fn": "map", "error_fn": "map", "flat_fn": "flat_map", "poll_fn": "poll", "cancel_fn": "poll",
                "should_retry": "retry", "sleep_time": "retry", "count_fn": "throttle"}.get(site)
        if need and need not in layers:
            continue
        for target_level in range(len(layers) + 1):
            # target_level: index into executors (0 = base ... len = top)
            if need and target_level < layers.index(need) + 1:
                # user code of layer L may submit to L itself or anything above/below; keep all levels >= its own
                pass
            begin("rt")
            ctx = Ctx()
            state = {"nested": 0, "reached": False, "futs": []}
            holder = {}

            def nested_submit(tag):
                if state["nested"] >= 1:
                    return
                if "executors" not in holder:
                    return  # user code called during construction of the stack
                state["nested"] += 1
                state["reached"] = True
                ex = holder["executors"][target_level]
                try:
                    f = call("nested.submit", ex.submit, lambda: ("nested", tag), _tag=tag)
                    state["futs"].append(f)
                except RuntimeError as e:
                    if "cannot schedule" not in str(e):
                        raise

            try:
                base = Executors.sync() if base_kind == "sync" else Executors.thread_pool(max_workers=2)
                ctx.own(base)
                executors = [base]
                cur = base
                fail_first = {"n": 0}
                for t in layers:
                    if t == "map":
                        def mfn(x):
                            if site == "map_fn":
                                nested_submit("map_fn")
                            return x
                        def efn(ex):
                            if site == "error_fn":
                                nested_submit("error_fn")
                            raise ex
                        cur = cur.with_map(mfn, error_fn=efn)
                    elif t == "flat_map":
                        def ffn(x):
                            if site == "flat_fn":
                                nested_submit("flat_fn")
                            return ME.futures.f_return(x)
                        cur = cur.with_flat_map(ffn)
                    elif t == "retry":
                        class Pol(ME.retry.RetryPolicy):
                            def should_retry(self, attempt, future):
                                if site == "should_retry":
                                    nested_submit("should_retry")
                                return attempt < 2 and future.exception() is not None
                            def sleep_time(self, attempt, future):
                                if site == "sleep_time":
                                    nested_submit("sleep_time")
                                return 0
                        cur = cur.with_retry(Pol())
                    elif t == "poll":
                        def pfn(ds):
                            if site == "poll_fn" and ds:
                                nested_submit("poll_fn")
                            for d in ds:
                                d.yield_result(d.result)
                            return 0.005
                        def cfn(r):
                            if site == "cancel_fn":
                                nested_submit("cancel_fn")
                            return True
                        cur = cur.with_poll(pfn, cfn, 0.005)
                    elif t == "throttle":
                        def cnt():
                            if site == "count_fn":
                                nested_submit("count_fn")
                            return 2
                        cur = cur.with_throttle(cnt)
                    elif t == "timeout":
                        cur = cur.with_timeout(1000.0)
                    elif t == "cos":
                        cur = cur.with_cancel_on_shutdown()
                    ctx.own(cur)
                    executors.append(cur)
                holder["executors"] = executors
                top = cur

                def job(x):
                    if site == "callable":
                        nested_submit("callable")
                    if site in ("error_fn", "should_retry", "sleep_time") and fail_first["n"] == 0:
                        fail_first["n"] += 1
                        raise UserErrorA("first attempt")
                    return x

                def client():
                    f = call("submit", top.submit, job, 5)
                    if site == "cb_before":
                        f.add_done_callback(lambda _f: nested_submit("cb_before"))
                    if site == "cancel_fn":
                        # cancel while polling is hard to time on a real base; try a few times
                        f.cancel()
                    try:
                        f.result(20)
                    except (CancelledError, UserErrorA):
                        pass
                    if site == "cb_after":
                        f.add_done_callback(lambda _f: nested_submit("cb_after"))
                    for g in list(state["futs"]):
                        try:
                            g.result(20)
                        except (CancelledError, UserErrorA):
                            pass
                    call("shutdown", top.shutdown, True)

                a = ctx.actor("C", client).go()
                why = drive([a], timeout=60.0)
                res.execs += 1
                check_common(res, deadlock_suffix=nested_suffix(site, layers, target_level))
                label = "%s/%s@%d" % (">".join(layers), site, target_level)
                if LM.deadlocks:
                    harness.mark_recycle()
                elif why != "ok":
                    res.inconclusive.append("nested %s: client did not finish (%s)" % (label, why))
                    harness.mark_recycle()
                elif a.error is not None and not isinstance(a.error, FTimeout):
                    res.count("foreign.exception_from_api/%s" % type(a.error).__name__)
                elif isinstance(a.error, FTimeout):
                    res.violation("nested/stalled/%s" % site, "future not resolved within 20 s in %s" % label)
                if state["reached"]:
                    res.key("nested", case["base"], label)
                res.sample({"nested_site": site, "stack": layers, "base": base_kind, "target_level": target_level,
                            "reached": state["reached"]}, limit=2)
            finally:
                end(ctx)
            if harness.need_recycle():
                return


# --------------------------------------------------------------------------
# fuzz
# --------------------------------------------------------------------------
def run_fuzz(case, res):
    ME = instr.ME
    rng = random.Random("c04f/%s/%s" % (case["seed"], case["idx"]))
    for it in range(case["n"]):
        begin("rt")
        ctx = Ctx()
        try:
            depth = rng.randint(1, 3)
            layers = [rng.choice(SINGLE) for _ in range(depth)]
            spec = {"base": rng.choice(["pool", "sync"]), "workers": rng.choice([1, 2, 4]),
                    "layers": [dict(L, **({"sleep": 0} if L["t"] == "retry" else {})) for L in layer_specs(layers)]}
            for L in spec["layers"]:
                if L["t"] == "poll":
                    L["interval"] = 0.002
            b = stacks.build(ctx, spec)
            top = b.top
            futs = []
            TR.set_fuzz(rng.choice([0.02, 0.05, 0.1]), rng.random())
            shut = {"done": False}
            racy_shutdown = rng.random() < 0.3
            others_done = instr._RealEvent()
            ndone = [0]

            def client(k, ops):
                for op in ops:
                    try:
                        if op == "submit":
                            futs.append(top.submit(lambda k=k: ("r", k)))
                        elif op == "fail":
                            def bad():
                                raise UserErrorA("x")
                            futs.append(top.submit(bad))
                        elif futs:
                            f = futs[-1]
                            if op == "cancel":
                                f.cancel()
                            elif op == "add_cb":
                                f.add_done_callback(lambda _f: None)
                            elif op == "result":
                                try:
                                    f.result(3)
                                except (CancelledError, UserErrorA):
                                    pass
                                except FTimeout:
                                    # futures abandoned by a shutdown may legitimately stay pending
                                    if not shut["done"]:
                                        raise
                    except RuntimeError as e:
                        if "cannot schedule" not in str(e):
                            raise
                if k != 0:
                    with instr.MU:
                        ndone[0] += 1
                        if ndone[0] == 2:
                            others_done.set()
                else:
                    if not racy_shutdown:
                        others_done.wait(30)
                    shut["done"] = True
                    top.shutdown(True)

            progs = [[rng.choice(["submit", "submit", "fail", "cancel", "add_cb", "result"]) for _ in range(rng.randint(3, 7))]
                     for _ in range(3)]
            actors = [ctx.actor("C%d" % k, client, k, progs[k]).go() for k in range(3)]
            why = drive(actors, timeout=90.0)
            TR.set_fuzz(0.0)
            res.execs += 1
            check_common(res)
            name = stacks.spec_name(spec)
            if LM.deadlocks:
                harness.mark_recycle()
                return
            if why != "ok":
                res.inconclusive.append("fuzz %s: %s %s" % (name, why, instr.describe_threads()))
                harness.mark_recycle()
                return
            for a in actors:
                if a.error is not None and not isinstance(a.error, FTimeout):
                    res.count("foreign.exception_from_api/%s" % type(a.error).__name__)
                elif isinstance(a.error, FTimeout):
                    res.violation("fuzz/stalled", "result(5) timed out on %s" % name)
            sig = hash(tuple((e[2], e[3]) for e in LOG.events)) & 0xFFFFFF
            res.key("fuzz", name, "%06x" % sig)
        finally:
            end(ctx)


class PollRaiseCbScenario(object):
    def __init__(self, case):
        self.case = case

    def setup(self):
        ctx = Ctx()
        spec = {"base": "me", "layers": layer_specs(self.case["layers"])}
        for L in spec["layers"]:
            if L["t"] == "poll":
                L["mode"] = "raise_once"
                L["interval"] = 50.0
            if L["t"] == "retry":
                L["max_attempts"] = 1
        n0 = len(instr.TRACKED)
        b = stacks.build(ctx, spec)
        ctx.b = b
        ctx.poll_role = [t.vf_role for t in instr.TRACKED[n0:] if "Poll" in t.vf_role][-1]
        ctx.n = 0
        ctx.futs = []

        def cb(_f):
            if ctx.n >= 2:
                return
            ctx.n += 1
            try:
                ctx.futs.append(call("nested.submit", b.top.submit, lambda: "nested"))
            except RuntimeError as e:
                if "cannot schedule" not in str(e):
                    raise
        # two futures whose delegates are pending; they will be in the polling stage when the poll function raises
        for i in range(2):
            f = b.top.submit(lambda i=i: i)
            f.add_done_callback(cb)
            ctx.futs.append(f)
        instr.settle()
        # from now on the delegate runs callables inline: a client's submit() registers for polling inside submit()
        b.base.auto = harness.run_inline
        return ctx

    def trigger_poll(self, ctx):
        # the pending delegate work ends -> registration -> the poll thread wakes up, is shown both, raises
        for i in ctx.b.base.pending():
            ctx.b.base.complete(i, ("v", i))

    def client_submit(self, ctx):
        try:
            ctx.futs.append(call("submit", ctx.b.top.submit, lambda: "client"))
        except RuntimeError as e:
            if "cannot schedule" not in str(e):
                raise

    def victim_role(self, ctx):
        return "V" if self.case["dir"].startswith("submit") else ctx.poll_role

    def start_victim(self, ctx):
        if self.case["dir"].startswith("submit"):
            return ctx.actor("V", self.client_submit, ctx).go()
        return ctx.actor("T", self.trigger_poll, ctx).go()

    def intervene(self, ctx):
        if self.case["dir"].startswith("submit"):
            self.trigger_poll(ctx)
        else:
            self.client_submit(ctx)

    def hang_key(self, ctx, stuck):
        return "poll-raise-cb/%s/%s" % (">".join(self.case["layers"]), self.case["dir"])

    def finish(self, ctx):
        for _ in range(3):
            instr.advance(1.0)
            for i in ctx.b.base.pending():
                ctx.b.base.complete(i, 1)
        a = ctx.actor("F", ctx.b.top.shutdown, True).go()
        ctx.finish_state = drive([a])

    def oracle(self, ctx, res, info):
        if ctx.finish_state != "ok":
            res.violation("hang/final-shutdown/%s" % ">".join(self.case["layers"]),
                          "shutdown(wait=True) did not return (%s): %s" % (ctx.finish_state, instr.describe_threads()), stacks=hang_report(ctx.actors))
            harness.mark_recycle()
        if info.get("hit"):
            res.key("pollraisecb", ">".join(self.case["layers"]), self.case["dir"], info.get("site"))
        res.count("poll_raise_callbacks", ctx.n)


def run_blockretry(case, res):
    """thread_pool-like inline delegate -> with_throttle(1, block=True) -> with_retry(): a few submissions whose first
    attempt fails.  Plain use, no cancel, no shutdown: every submit() returns and every future completes."""
    begin("vt")
    ctx = Ctx()
    try:
        layers = ["throttle", "retry"] + case["above"]
        spec = {"base": "me_inline", "layers": layer_specs(layers)}
        for L in spec["layers"]:
            if L["t"] == "throttle":
                L.update(count=1, block=True)
            if L["t"] == "retry":
                L.update(max_attempts=3, sleep=0)
        b = stacks.build(ctx, spec)
        calls = {}

        def job(i):
            calls[i] = calls.get(i, 0) + 1
            if calls[i] == 1:
                raise UserErrorA("first attempt of %d" % i)
            return i
        futs = []

        def client():
            for i in range(case["n"]):
                futs.append(call("submit", b.top.submit, job, i, _tag=i))
        a = ctx.actor("C", client).go()
        why = drive([a], max_virtual=200.0)
        instr.advance(5.0)
        res.execs += 1
        check_common(res, deadlock_suffix="@blocking-throttle-below-retry")
        stuck = [i for i, f in enumerate(futs) if not f.done()]
        if why != "ok" or stuck or len(futs) < case["n"]:
            # who waits for whom: the retry thread sits in the throttle's blocking submit() holding its executor lock,
            # the throttle's hand-over thread runs the retry layer's done-callback and wants that lock
            sig = "retry-lock-held-in-blocking-submit" if any("Retry" in r and s == "parked" for r, s in thread_states()) and \
                any("Throttle" in r and s == "blocked" for r, s in thread_states()) else "other"
            res.violation("hang/blocking-throttle-below-retry/%s" % sig,
                          "%s: submit() returned for %d of %d callables, futures %s never complete (drive: %s): %s"
                          % (">".join(layers), len(futs), case["n"], stuck, why, instr.describe_threads()), stacks=hang_report(ctx.actors))
            harness.mark_recycle()
        res.key("blockretry", ">".join(layers), case["n"])
        res.sample({"stack": layers, "submissions": case["n"], "submit_returned": len(futs), "never_completed": stuck}, limit=1)
    finally:
        end(ctx)


def run_blockretrym(case, res):
    """The same stack over a delegate whose work takes time: A holds the only slot, B fills the throttle's queue, the
    retry thread is blocked handing over C.  Then A's work ends on the delegate's thread: the slot is given back, the
    queue moves on, the blocked hand-over returns and everything completes."""
    begin("vt")
    ctx = Ctx()
    try:
        layers = ["throttle", "retry"] + case["above"]
        spec = {"base": "me", "layers": layer_specs(layers)}
        for L in spec["layers"]:
            if L["t"] == "throttle":
                L.update(count=1, block=True)
            if L["t"] == "retry":
                L.update(max_attempts=2, sleep=0)
        b = stacks.build(ctx, spec)
        me = b.base
        futs = []

        def client():
            for i in range(3):
                futs.append(call("submit", b.top.submit, lambda i=i: i, _tag=i))
        a = ctx.actor("C", client).go()
        why = drive([a], max_virtual=50.0)
        instr.settle()
        ok = why == "ok"
        for rnd in range(8):
            p = me.pending()
            if not p:
                break

            def worker(k=p[0], rnd=rnd):
                if case["how"] == "exc" and rnd == 0:
                    me.fail(k, UserErrorA("attempt"))
                else:
                    me.complete(k, ("done", k))
            wa = ctx.actor("W%d" % rnd, worker).go()
            if drive([wa], max_virtual=50.0) != "ok":
                # (a worker that is held up for a while is no verdict: only what is left undone at the end is)
                res.count("blockretrym.worker_held_up")
                if not wa.finished:
                    ok = False
                    break
            instr.advance(0.5)
        res.execs += 1
        check_common(res, deadlock_suffix="@blocking-throttle-below-retry/manual")
        stuck = [i for i, f in enumerate(futs) if not f.done()]
        if not ok:
            # (a drive that reported a hold-up on the way is no verdict: only what is left undone at the end is)
            res.count("blockretrym.drive_not_ok")
        if (stuck or len(futs) < 3) and not LM.deadlocks:
            res.violation("hang/blocking-throttle-below-retry/manual-completion",
                          "%s: a delegate thread ending the in-flight work did not get the queue moving: submit() returned for %d of 3, "
                          "futures %s never complete: %s" % (">".join(layers), len(futs), stuck, instr.describe_threads()), stacks=hang_report(ctx.actors))
            harness.mark_recycle()
        res.key("blockretrym", ">".join(layers), case["how"])
    finally:
        end(ctx)


def thread_states():
    with instr.MU:
        return [(getattr(t, "vf_role", t.name), instr.thread_state(t)) for t in instr.all_threads()]


def run_nestedcb(case, res):
    """Done-callbacks that submit again, run from every internal thread context:
    the delegate's completing thread, the canceller, the timeout thread, the
    poll thread, the shutdown sweep of cancel_on_shutdown."""
    layers = case["layers"]
    for how in ("value", "exc", "cancel", "timeout", "shutdown"):
        if how == "timeout" and "timeout" not in layers:
            continue
        if how == "shutdown" and "cos" not in layers:
            continue
        for level in range(len(layers) + 1):
            begin("vt")
            ctx = Ctx()
            try:
                spec = {"base": "me", "layers": layer_specs(layers)}
                for L in spec["layers"]:
                    if L["t"] == "timeout" and how == "timeout":
                        L["timeout"] = 1.0
                    if L["t"] == "retry":
                        L["max_attempts"] = 1
                b = stacks.build(ctx, spec)
                target = b.executors[level]
                state = {"n": 0, "futs": []}

                def cb(_f):
                    if state["n"] >= 3:
                        return
                    state["n"] += 1
                    try:
                        state["futs"].append(call("nested.submit", target.submit, lambda: "nested"))
                    except RuntimeError as e:
                        if "cannot schedule" not in str(e):
                            raise

                def client():
                    fs = [b.top.submit(lambda i=i: i) for i in range(2)]
                    for f in fs:
                        f.add_done_callback(cb)
                    return fs

                a = ctx.actor("C", client).go()
                ok = drive([a]) == "ok"
                instr.advance(0.01)

                def finisher():
                    me = b.base
                    if how == "value":
                        for i in me.pending():
                            me.complete(i, 1)
                    elif how == "exc":
                        for i in me.pending():
                            me.fail(i, UserErrorA("x"))
                    elif how == "cancel":
                        for f in (a.value or []):
                            f.cancel()
                    elif how == "shutdown":
                        b.top.shutdown(True)
                if ok and not LM.deadlocks:
                    fa = ctx.actor("F", finisher).go()
                    ok = drive([fa]) == "ok"
                    if ok and not LM.deadlocks:
                        instr.advance(3.0)
                        # let nested submissions finish too, then shut down
                        for _ in range(3):
                            fb = ctx.actor("F2", lambda: [b.base.complete(i, 2) for i in b.base.pending()]).go()
                            drive([fb])
                            instr.advance(0.5)
                        sd = ctx.actor("S", b.top.shutdown, True).go()
                        ok = drive([sd]) == "ok"
                res.execs += 1
                check_common(res)
                label = "%s/%s@%d" % (">".join(layers), how, level)
                if LM.deadlocks:
                    harness.mark_recycle()
                elif not ok:
                    res.violation("hang/nested-cb/%s" % how, "client/finisher/shutdown did not return in %s: %s" % (label, instr.describe_threads()),
                                  stacks=hang_report(ctx.actors))
                    harness.mark_recycle()
                if state["n"]:
                    res.key("nestedcb", label)
                res.sample({"stack": layers, "completion": how, "callback_submits_to_level": level, "callbacks_ran": state["n"]}, limit=1)
            finally:
                end(ctx)
            if harness.need_recycle():
                return


def run_case(case, res):
    if case["kind"] == "nestedrace":
        return run_nested_race(case, res)
    if case["kind"] == "nestedcb":
        return run_nestedcb(case, res)
    if case["kind"] == "attach-nested":
        from . import c03
        return c03.run_attach_nested(case, res)
    if case["kind"] == "secondclient":
        return run_secondclient(case, res)
    if case["kind"] == "blockretry":
        return run_blockretry(case, res)
    if case["kind"] == "blockretrym":
        return run_blockretrym(case, res)
    if case["kind"] == "refused":
        return run_refused(case, res)
    if case["kind"] == "pollraisecb":
        rng = random.Random("c04p/%s/%s" % (case["seed"], case["name"]))
        Sweep(PollRaiseCbScenario(case), res, "vt", case["name"]).run(case["cap"], rng, per_site=2)
        return
    if case["kind"] == "pair":
        run_pair(case, res)
    elif case["kind"] == "nested":
        run_nested(case, res)
    else:
        run_fuzz(case, res)
