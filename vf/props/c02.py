"""C02 - every returned future obeys the concurrent.futures.Future protocol.

A probe is attached to the future produced by each entry point (every executor
class over a manual delegate, sync / thread-pool wrappers, every f_* combinator
over spy inputs).  Placement sweeps race completion (value / exception / cancel of
the underlying work) against cancel() and add_done_callback() and vice versa;
fuzzed histories issue the same operations from three threads."""
import random
import itertools
import threading
import concurrent.futures as cf

from .. import instr, harness, stacks
from ..harness import (Sweep, SweepNested, Ctx, ManualExecutor, SpyFuture, call, check_common, begin, end, drive,
                       Recorded, UserErrorA, outcome, outcome_repr)
from ..instr import LOG, TR, LM, Inconclusive

TITLE = "future protocol"
RULE = ("one execution = one entry point (executor layer or f_* combinator), one way the underlying work completes "
        "(value / exception / cancelled from outside), and one ordered pair of operations from {complete, cancel, "
        "add_done_callback, add_done_callback-from-callback} with the second placed at one statement boundary of the first, "
        "or one fuzzed 3-thread history; distinct & non-trivial = (entry point, completion kind, op pair, placement site | "
        "history signature) in which the future reached a terminal state while probes were attached")
REQUIRED = ["line_events", "lock_acquisitions"]
EXEC_ENTRIES = ["map", "flat_map", "retry", "retrying", "poll", "throttle", "throttle-queued", "timeout", "cos", "map>retry", "poll>map",
                "throttle>retry"]
F_ENTRIES = ["f_map", "f_flat_map", "f_flat_map_inner", "f_zip", "f_sequence", "f_traverse", "f_and", "f_or", "f_apply",
             "f_nocancel", "f_proxy", "f_timeout", "f_map/proxy", "f_zip/proxy", "f_or/proxy"]
KINDS = ["value", "exc", "inner_cancel", "refused_then_inner_cancel"]
OPS = ["complete", "cancel", "add_cb", "add_cb_nested", "submit_other", "query"]


def cases(tier, seed):
    out = []
    cap = 10 if tier == "quick" else None
    for entry in EXEC_ENTRIES + F_ENTRIES:
        for kind in KINDS:
            out.append({"name": "fut.pairs/%s/%s" % (entry, kind), "kind": "pairs", "entry": entry, "ckind": kind, "cap": cap})
    for entry in ("poll", "retry", "throttle", "timeout", "poll>map"):
        for kind in ("value", "exc"):
            out.append({"name": "fut.pairs-instr/%s/%s" % (entry, kind), "kind": "pairs", "entry": entry, "ckind": kind, "cap": None,
                        "gran": "instr", "ops": [["cancel", "complete"], ["query", "complete"], ["add_cb", "complete"]]})
    nested_entries = EXEC_ENTRIES + F_ENTRIES if tier == "thorough" else ["map", "retry", "poll", "throttle", "timeout", "f_map", "f_zip", "f_and", "f_proxy"]
    for entry in nested_entries:
        for kind in KINDS:
            for x in ("add_cb", "cancel"):
                out.append({"name": "fut.nested/%s/%s/%s" % (entry, kind, x), "kind": "nested", "entry": entry, "ckind": kind, "x": x,
                            "budget": 500 if tier == "quick" else None})
    chain_entries = (EXEC_ENTRIES + F_ENTRIES) if tier == "thorough" else ["map", "flat_map", "retry", "poll", "throttle", "timeout", "cos",
                                                                          "f_map", "f_zip", "f_proxy", "f_nocancel"]
    for entry in chain_entries:
        for shape in ("map-map", "zip-map", "flat-map"):
            out.append({"name": "fut.chain/%s/%s" % (entry, shape), "kind": "chain", "entry": entry, "shape": shape,
                        "cap": 12 if tier == "quick" else None})
    for entry in F_ENTRIES:
        out.append({"name": "fut.reentrant/%s" % entry, "kind": "reentrant", "entry": entry})
    for entry in ("sync", "pool", "f_return", "f_return_error", "f_return_cancelled"):
        out.append({"name": "fut.simple/%s" % entry, "kind": "simple", "entry": entry})
    nf = 24 if tier == "quick" else 2000
    for i in range(nf):
        out.append({"name": "fut.fuzz/%d" % i, "kind": "fuzz", "idx": i, "n": 20 if tier == "quick" else 40})
    for entry in [e for e in EXEC_ENTRIES[:8] if e != "throttle-queued"] + F_ENTRIES:
        out.append({"name": "fut.waiters/%s" % entry, "kind": "waiters", "entry": entry})
    return out


class Entry(object):
    """Creates the future under test and knows how to end its underlying work."""

    def __init__(self, ctx, name, pre=None):
        ME = instr.ME
        F = ME.futures
        self.name = name
        self.ctx = ctx
        self.ins = []
        self.me = None
        if name.startswith("f_"):
            ins = self.ins = [SpyFuture("in%d" % i) for i in range(3)]
            if pre is not None:
                pre(ins)  # e.g. done-callbacks the user registered on the inputs before combining them
            if name.endswith("/proxy"):
                # the inputs reach the combinator through f_proxy (unknown attributes are forwarded to the result)
                given = [F.f_proxy(f) for f in ins]
                self.f = {"f_map/proxy": lambda: F.f_map(given[0], lambda x: ("m", x)), "f_zip/proxy": lambda: F.f_zip(*given),
                          "f_or/proxy": lambda: F.f_or(*given)}[name]()
                if name == "f_map/proxy":
                    self.ins = ins[:1]
            elif name == "f_map":
                self.f = F.f_map(ins[0], lambda x: ("m", x))
                self.ins = ins[:1]
            elif name == "f_flat_map":
                self.f = F.f_flat_map(ins[0], lambda x: F.f_return(("fm", x)))
                self.ins = ins[:1]
            elif name == "f_flat_map_inner":
                self.f = F.f_flat_map(F.f_return(1), lambda x: ins[0])
                self.ins = ins[:1]
            elif name == "f_zip":
                self.f = F.f_zip(*ins)
            elif name == "f_sequence":
                self.f = F.f_sequence(ins)
            elif name == "f_traverse":
                it = iter(ins)
                self.f = F.f_traverse(lambda x: next(it), range(3))
            elif name == "f_and":
                self.f = F.f_and(*ins)
            elif name == "f_or":
                self.f = F.f_or(*ins)
            elif name == "f_apply":
                self.f = F.f_apply(ins[0], ins[1], k=ins[2])
            elif name == "f_nocancel":
                self.f = F.f_nocancel(ins[0])
                self.ins = ins[:1]
            elif name == "f_proxy":
                self.f = F.f_proxy(ins[0])
                self.ins = ins[:1]
            elif name == "f_timeout":
                self.f = F.f_timeout(ins[0], 1000.0)
                self.ins = ins[:1]
            else:
                raise ValueError(name)
        else:
            queued = name == "throttle-queued"
            layers = ["throttle"] if queued else name.split(">")
            spec = {"base": "me", "layers": []}
            for k, t in enumerate(layers):
                L = {"t": t, "k": k}
                if t == "retrying":
                    # a retry layer that really retries: a failed attempt is re-queued with a back-off
                    L.update(t="retry", max_attempts=2, sleep=0.25)
                if t == "retry":
                    L.update(max_attempts=1, sleep=0)
                if t == "throttle":
                    L.update(count=1 if queued else 2)
                if t == "poll":
                    L.update(interval=0.5)
                if t == "timeout":
                    L.update(timeout=1000.0)
                spec["layers"].append(L)
            self.b = stacks.build(ctx, spec)
            self.me = self.b.base
            self.top = self.b.top
            if queued:
                # the only slot is taken, another future waits in front: the future under test is queued behind it
                self.others = [self.b.top.submit(Recorded("filler", lambda idx: ("v", "filler")))]
                instr.advance(0.01)
                self.others.append(self.b.top.submit(Recorded("ahead", lambda idx: ("v", "ahead"))))
            self.f = self.b.top.submit(Recorded("job", lambda idx: ("v", 0)))
            instr.advance(0.01)

    def complete(self, kind):
        if kind == "refused_then_inner_cancel":
            # the underlying future refuses one cancel request (cancel() through the derived future returns
            # False), later it is cancelled by someone else
            targets = [self.me.fut(k) for k in self.me.pending()] if self.me is not None else [s for s in self.ins if not s.done()]
            for t in targets:
                t.refuse_cancels = 1
            try:
                self.f.cancel()
            except Exception:
                pass
            for t in targets:
                t.refuse_cancels = 0
                t.cancel()
            return
        if self.me is not None:
            for k in self.me.pending():
                if kind == "value":
                    self.me.complete(k, ("v", k))
                elif kind == "exc":
                    self.me.fail(k, UserErrorA("e%d" % k))
                else:
                    self.me.fut(k).cancel()
            return
        first = True
        for i, s in enumerate(self.ins):
            if s.done():
                continue
            try:
                if kind == "value" or not first:
                    v = (lambda *a, **k: ("applied", a, sorted(k))) if (self.name == "f_apply" and i == 0) else ("in", i)
                    s.set_result(v)
                elif kind == "exc":
                    s.set_exception(UserErrorA("in%d" % i))
                else:
                    s.cancel()
            except cf.InvalidStateError:
                pass
            first = False


class Probe(object):
    def __init__(self, f):
        self.f = f
        self.cbs = {}  # name -> list of (seq, done_when_run)
        self.registered = []
        self.cancels = []  # (inv, ret, value|exc)
        self.add_errors = []
        self.first_outcome = None
        self.lock = instr._RealLock()

    def _cb(self, name, nested=None):
        def cb(fut):
            d = fut.done()
            with self.lock:
                self.cbs.setdefault(name, []).append((LOG.add("cb.run", name=name), d, fut is self.f))
                if self.first_outcome is None and d:
                    self.first_outcome = outcome(fut)
            if nested:
                self.add_cb(nested)
        return cb

    def add_cb(self, name, nested=None):
        with self.lock:
            self.registered.append(name)
            if nested:
                self.registered.append(nested)
        try:
            self.f.add_done_callback(self._cb(name, nested))
        except instr.DeadlockBroken:
            raise
        except BaseException as e:
            self.add_errors.append((name, e))

    def cancel(self, who):
        inv = LOG.add("pcancel.inv", who=who)
        was_done = self.f.done() and not self.f.cancelled()
        try:
            r = self.f.cancel()
        except instr.DeadlockBroken:
            raise
        except BaseException as e:
            self.cancels.append((inv, LOG.add("pcancel.ret", who=who, exc=type(e).__name__), e, was_done))
            return
        self.cancels.append((inv, LOG.add("pcancel.ret", who=who, value=r), r, was_done))

    def judge(self, res, label, site=None):
        f = self.f
        where = "%s placement=%s" % (label, site)
        o = outcome(f)
        if o[0] == "pending":
            return False
        for (inv, ret, r, was_done) in self.cancels:
            if isinstance(r, BaseException):
                res.violation("cancel-raised/%s" % type(r).__name__, "%s: cancel() raised %r" % (where, r))
            elif not isinstance(r, bool):
                res.violation("cancel-nonbool", "%s: cancel() returned %r" % (where, r))
            elif r is True and not f.cancelled():
                res.violation("cancel-true-not-cancelled", "%s: cancel() returned True but the future is %s" % (where, outcome_repr(o)))
            elif r is True and was_done:
                res.violation("cancel-true-on-finished", "%s: cancel() returned True on a future that had finished normally" % where)
        for (name, e) in self.add_errors:
            if name in ("running", "done", "cancelled"):
                res.violation("%s-raised/%s" % (name, type(e).__name__), "%s: %s() raised %r" % (where, name, e))
            else:
                res.violation("add_done_callback-raised/%s" % type(e).__name__, "%s: add_done_callback(%s) raised %r" % (where, name, e))
        for name in self.registered:
            runs = self.cbs.get(name, [])
            if len(runs) != 1:
                res.violation("callback-runs/%d" % len(runs), "%s: done-callback '%s' ran %d times (future is %s)" % (where, name, len(runs), outcome_repr(o)))
            for (s, d, same) in runs:
                if not d:
                    res.violation("callback-before-done", "%s: done-callback '%s' ran while done() was False" % (where, name))
        fo = self.first_outcome
        if fo is not None and (fo[0] != o[0] or (fo[0] == "exc" and fo[1] is not o[1]) or (fo[0] == "value" and fo[1] != o[1])):
            res.violation("outcome-changed", "%s: outcome first observed as %s, later %s" % (where, outcome_repr(fo), outcome_repr(o)))
        # waiters: a done future must be reported done by wait()/as_completed() without blocking
        dn, nd = cf.wait([f], timeout=0)
        if f not in dn:
            res.violation("waiters-not-notified/%s" % ("cancelled" if f.cancelled() else "finished"),
                          "%s: future is %s but concurrent.futures.wait([f], timeout=0) does not report it done (state %s)"
                          % (where, outcome_repr(o), getattr(f, "_state", "?")))
        else:
            try:
                got = list(cf.as_completed([f], timeout=0))
                if got != [f]:
                    res.violation("as_completed-missed", "%s: as_completed did not yield the done future" % where)
            except cf.TimeoutError:
                res.violation("as_completed-missed", "%s: as_completed timed out on a done future" % where)
        return True


def _raising_observer(_f):
    raise UserErrorA("an observer's done-callback")


class PScenario(object):
    def __init__(self, entry, ckind, a, b):
        self.entry, self.ckind, self.a, self.b = entry, ckind, a, b

    def setup(self):
        ctx = Ctx()
        e = Entry(ctx, self.entry)
        ctx.e = e
        ctx.p = Probe(e.f)
        # somebody else's done-callback, registered first, raises: the others still run exactly once
        e.f.add_done_callback(_raising_observer)
        ctx.p.add_cb("pre")
        return ctx

    def op(self, ctx, what, who):
        if what == "complete":
            ctx.e.complete(self.ckind)
        elif what == "cancel":
            ctx.p.cancel(who)
        elif what == "add_cb":
            ctx.p.add_cb("cb-" + who)
        elif what == "add_cb_nested":
            ctx.p.add_cb("cb-" + who, nested="nested-" + who)
        elif what == "query":
            # the state queries of the protocol: they return, they do not raise
            for qn in ("running", "done", "cancelled"):
                try:
                    v = getattr(ctx.p.f, qn)()
                    if not isinstance(v, bool) and v is not None:
                        ctx.p.add_errors.append((qn, TypeError("%s() returned %r" % (qn, v))))
                except (instr.DeadlockBroken, instr.CaseAbort):
                    raise
                except BaseException as e:
                    ctx.p.add_errors.append((qn, e))
        elif what == "submit_other":
            # unrelated traffic on the same executor
            top = getattr(ctx.e, "top", None)
            if top is not None:
                try:
                    ctx.extra = getattr(ctx, "extra", []) + [top.submit(Recorded("other-" + who, lambda idx: ("v", "other")))]
                except RuntimeError:
                    pass

    def victim_role(self, ctx):
        return "V"

    def start_victim(self, ctx):
        return ctx.actor("V", self.op, ctx, self.a, "V").go()

    def intervene(self, ctx):
        self.op(ctx, self.b, "I")

    def finish(self, ctx):
        instr.advance(0.6)
        ctx.e.complete(self.ckind)
        instr.advance(1.2)
        for _ in range(3):
            # (queued entries: the work in front has to end before the future under test is handed over)
            if ctx.e.me is None or not ctx.e.me.pending():
                break
            ctx.e.complete(self.ckind)
            instr.advance(1.2)
        ctx.p.add_cb("post")
        ctx.p.cancel("late")
        instr.advance(0.1)

    def oracle(self, ctx, res, info):
        label = "%s/%s/%s|%s" % (self.entry, self.ckind, self.a, self.b)
        if ctx.p.judge(res, label, info.get("site")):
            if info.get("hit") or info.get("pos") is None:
                res.key(label, info.get("site"))
        else:
            # a future that never finishes is C03's business, not a protocol violation
            res.count("foreign.future_still_pending")
        res.sample({"entry": self.entry, "completion": self.ckind, "ops": [self.a, self.b], "placement": info.get("site"),
                    "cancel_returns": [repr(c[2]) for c in ctx.p.cancels], "callbacks": {k: len(v) for k, v in ctx.p.cbs.items()},
                    "final": outcome_repr(outcome(ctx.p.f))}, limit=1)


class NScenario(PScenario):
    """completer paused at i; second op started and paused at j; completer released first."""

    def __init__(self, entry, ckind, x):
        PScenario.__init__(self, entry, ckind, "complete", x)

    def role_a(self, ctx):
        return "V"

    def start_a(self, ctx):
        return ctx.actor("V", self.op, ctx, "complete", "V").go()

    def intervene1(self, ctx):
        self.op(ctx, self.b, "I")

    def oracle(self, ctx, res, info):
        label = "nested/%s/%s/%s" % (self.entry, self.ckind, self.b)
        site = (info.get("site"), info.get("site2"))
        if ctx.p.judge(res, label, site):
            if info.get("hit") and info.get("hit2"):
                res.key(label, site)
        else:
            res.count("foreign.future_still_pending")


class ChainScenario(object):
    """Futures derived from one another (f0 from the entry point, f1 derived from f0, f2 from f1), each with a probe.
    Two threads operate on two different links of the chain - cancel either, or end the underlying work while the
    other end is cancelled: every call returns and every link obeys the protocol."""

    def __init__(self, case, a, b):
        self.case, self.a, self.b = case, a, b

    def setup(self):
        F = instr.ME.futures
        ctx = Ctx()
        e = Entry(ctx, self.case["entry"])
        ctx.e = e
        f0 = e.f
        shape = self.case["shape"]
        if shape == "map-map":
            f1 = F.f_map(f0, lambda v: ("l1", v))
            f2 = F.f_map(f1, lambda v: ("l2", v))
        elif shape == "zip-map":
            ctx.side = SpyFuture("side")
            f1 = F.f_zip(f0, ctx.side)
            f2 = F.f_map(f1, lambda v: ("l2", v))
        else:
            f1 = F.f_flat_map(f0, lambda v: F.f_return(("l1", v)))
            f2 = F.f_flat_map(f1, lambda v: F.f_return(("l2", v)))
        ctx.links = [f0, f1, f2]
        ctx.probes = [Probe(f) for f in ctx.links]
        for i, p in enumerate(ctx.probes):
            p.add_cb("pre%d" % i)
        return ctx

    def op(self, ctx, what, who):
        if what == "complete":
            ctx.e.complete("value")
        elif what == "fail":
            ctx.e.complete("exc")
        elif what == "inner_cancel":
            ctx.e.complete("inner_cancel")
        else:
            ctx.probes[int(what[-1])].cancel(who)

    def victim_role(self, ctx):
        return "V"

    def start_victim(self, ctx):
        return ctx.actor("V", self.op, ctx, self.a, "V").go()

    def intervene(self, ctx):
        self.op(ctx, self.b, "I")

    def finish(self, ctx):
        instr.advance(0.6)
        ctx.e.complete("value")
        if getattr(ctx, "side", None) is not None and not ctx.side.done():
            ctx.side.set_result("side")
        instr.advance(1.2)
        for i, p in enumerate(ctx.probes):
            p.add_cb("post%d" % i)
        instr.advance(0.1)

    def oracle(self, ctx, res, info):
        label = "chain/%s/%s/%s|%s" % (self.case["entry"], self.case["shape"], self.a, self.b)
        done = 0
        for i, p in enumerate(ctx.probes):
            if p.judge(res, "%s link%d" % (label, i), info.get("site")):
                done += 1
        if done == len(ctx.probes):
            if info.get("hit") or info.get("pos") is None:
                res.key(label, info.get("site"))
        else:
            res.count("foreign.future_still_pending")
        res.count("chain_links_judged", done)
        res.sample({"entry": self.case["entry"], "chain": self.case["shape"], "ops": [self.a, self.b], "placement": info.get("site"),
                    "cancel_returns": [[repr(c[2]) for c in p.cancels] for p in ctx.probes],
                    "final": [outcome_repr(outcome(f)) for f in ctx.links]}, limit=1)


CHAIN_PAIRS = [("cancel0", "cancel2"), ("cancel2", "cancel0"), ("cancel0", "cancel1"), ("cancel1", "cancel0"), ("cancel1", "cancel2"),
               ("cancel2", "cancel1"), ("complete", "cancel2"), ("cancel2", "complete"), ("fail", "cancel1"), ("cancel1", "fail"),
               ("inner_cancel", "cancel2"), ("cancel2", "inner_cancel"), ("inner_cancel", "cancel1")]


def run_chain(case, res):
    rng = random.Random("c02/%s/%s" % (case["seed"], case["name"]))
    for a, b in CHAIN_PAIRS:
        Sweep(ChainScenario(case, a, b), res, "vt", case["name"]).run(case["cap"], rng, per_site=1)
        if harness.need_recycle():
            return


def run_reentrant(case, res):
    """Operations on the future under test issued from done-callbacks of its own inputs (same thread, inside the
    library's call into the input): cancel / add_done_callback / done() re-enter the future while one of its own
    operations is in progress."""
    for when in ("before", "after"):
        for inner in ("cancel", "add_cb", "cancel+add_cb"):
            for outer in ("cancel", "inner_cancel", "value", "exc"):
                begin("vt")
                ctx = Ctx()
                try:
                    box = {}

                    def reenter(_f):
                        p = box.get("p")
                        if p is None:
                            return
                        if "cancel" in inner:
                            p.cancel("reentrant")
                        if "add_cb" in inner:
                            box["n"] = box.get("n", 0) + 1
                            p.add_cb("reentrant-cb%d" % box["n"])

                    def pre(ins):
                        for s_ in ins:
                            s_.add_done_callback(reenter)
                    e = Entry(ctx, case["entry"], pre=pre if when == "before" else None)
                    if when == "after":
                        for s_ in e.ins:
                            s_.add_done_callback(reenter)
                    p = Probe(e.f)
                    p.add_cb("pre")
                    box["p"] = p
                    if inner == "cancel+add_cb":
                        # ... and a done-callback of the future under test that tidies up its inputs
                        e.f.add_done_callback(lambda _o: [s_.cancel() for s_ in e.ins])
                    try:
                        if outer == "cancel":
                            p.cancel("outer")
                        else:
                            e.complete(outer)
                        instr.advance(0.5)
                        e.complete("value")
                        instr.advance(0.5)
                        p.add_cb("post")
                    except instr.DeadlockBroken:
                        pass  # recorded by the lock monitor, reported below
                    res.execs += 1
                    check_common(res, deadlock_suffix="@reentrant/%s" % inner)
                    if LM.deadlocks:
                        continue
                    label = "reentrant/%s/%s/%s/%s" % (case["entry"], when, inner, outer)
                    if p.judge(res, label):
                        res.key(label)
                    else:
                        res.count("foreign.future_still_pending")
                    res.sample({"entry": case["entry"], "callback_registered": when + " the combinator call", "callback_does": inner,
                                "outer_operation": outer, "cancel_returns": [repr(c[2]) for c in p.cancels],
                                "final": outcome_repr(outcome(e.f))}, limit=1)
                finally:
                    end(ctx)


def run_pairs(case, res):
    rng = random.Random("c02/%s/%s" % (case["seed"], case["name"]))
    pairs = [tuple(x) for x in case["ops"]] if case.get("ops") else list(itertools.permutations(OPS, 2))
    for a, b in pairs:
        if {a, b} == {"add_cb", "add_cb_nested"}:
            continue
        if "submit_other" in (a, b) and case["entry"].startswith("f_"):
            continue
        if "query" in (a, b) and not case.get("ops") and {a, b} - {"query", "complete", "cancel"}:
            continue
        Sweep(PScenario(case["entry"], case["ckind"], a, b), res, "vt", case["name"], gran=case.get("gran")).run(case["cap"], rng, per_site=1)
        if harness.need_recycle():
            return


def run_simple(case, res):
    ME = instr.ME
    F = ME.futures
    entry = case["entry"]
    for variant in range(3):
        begin("rt")
        ctx = Ctx()
        try:
            gate = instr._RealEvent()
            if entry == "sync":
                ex = ctx.own(ME.Executors.sync())
                f = ex.submit((lambda: 1) if variant != 1 else (lambda: 1 / 0))
            elif entry == "pool":
                ex = ctx.own(ME.Executors.thread_pool(max_workers=1))
                def job():
                    gate.wait(10)
                    if variant == 1:
                        raise UserErrorA("x")
                    return 1
                f = ex.submit(job)
            elif entry == "f_return":
                f = F.f_return(5)
            elif entry == "f_return_error":
                f = F.f_return_error(UserErrorA("x"))
            else:
                f = F.f_return_cancelled()
            p = Probe(f)
            p.add_cb("pre", nested="pre-nested")
            a1 = ctx.actor("A1", p.add_cb, "t1").go()
            a2 = ctx.actor("A2", p.cancel, "t2").go() if variant == 2 else None
            gate.set()
            acts = [a for a in (a1, a2) if a]
            if drive(acts, timeout=20) != "ok":
                raise Inconclusive("simple actors stuck")
            try:
                f.result(10)
            except BaseException:
                pass
            p.add_cb("post")
            p.cancel("late")
            res.execs += 1
            check_common(res)
            if p.judge(res, "simple/%s/%d" % (entry, variant)):
                res.key("simple", entry, variant)
        finally:
            end(ctx)


def run_waiters(case, res):
    """Threads blocked in result()/exception()/wait()/as_completed() before completion
    are released by every kind of completion."""
    for kind in KINDS + ["cancel"]:
        begin("vt")
        ctx = Ctx()
        try:
            e = Entry(ctx, case["entry"])
            f = e.f
            released = {}

            def waiter(how):
                try:
                    if how == "result":
                        f.result(30)
                    elif how == "exception":
                        f.exception(30)
                    elif how == "wait":
                        dn, nd = cf.wait([f], timeout=30)
                        if f not in dn:
                            released[how] = "timeout"
                            return
                    else:
                        for _ in cf.as_completed([f], timeout=30):
                            pass
                    released[how] = "ok"
                except cf.CancelledError:
                    released[how] = "ok"
                except UserErrorA:
                    released[how] = "ok"
                except cf.TimeoutError:
                    released[how] = "timeout"
            ws = []
            for how in ("result", "exception", "wait", "as_completed"):
                a = ctx.actor("W-" + how, waiter, how)
                a.external = True
                ws.append(a.go())
            import time as _t
            _t.sleep(0.05)
            if kind == "cancel":
                r = f.cancel()
                if r is not True:
                    e.complete("value")
            else:
                e.complete(kind)
            instr.advance(1.5)
            res.execs += 1
            check_common(res)
            if not f.done():
                if kind in ("inner_cancel", "refused_then_inner_cancel") and case["entry"] not in ("cos",):
                    res.violation("waiter-not-released/underlying-work-cancelled",
                                  "%s: the underlying work was cancelled (%s) but the future never completes: threads blocked in result()/wait() stay blocked"
                                  % (case["entry"], kind))
                elif kind in ("value", "exc") and case["entry"] not in ("retrying",):
                    res.violation("waiter-not-released/underlying-work-ended",
                                  "%s: everything the future depends on has ended (%s) but the future never completes: threads blocked in "
                                  "result()/wait() stay blocked" % (case["entry"], kind))
                else:
                    res.count("foreign.future_still_pending")
                continue
            for a in ws:
                instr._RealThread.join(a, 10.0)
            dn, nd = cf.wait([f], timeout=0)
            for how in ("result", "exception", "wait", "as_completed"):
                if released.get(how) != "ok":
                    if f not in dn or how in ("result", "exception"):
                        res.violation("waiter-not-released/%s/%s" % (how, "cancelled" if f.cancelled() else "finished"),
                                      "%s completed by %s (%s): a thread blocked in %s was not released"
                                      % (case["entry"], kind, outcome_repr(outcome(f)), how))
                    else:
                        res.inconclusive.append("waiter %s not released within 10 s although a fresh wait() sees the future done" % how)
            res.key("waiters", case["entry"], kind)
        finally:
            end(ctx)


def run_fuzz(case, res):
    rng = random.Random("c02f/%s/%s" % (case["seed"], case["idx"]))
    for it in range(case["n"]):
        begin("vt")
        ctx = Ctx()
        try:
            entry = rng.choice(EXEC_ENTRIES + F_ENTRIES)
            kind = rng.choice(KINDS)
            e = Entry(ctx, entry)
            p = Probe(e.f)
            TR.set_fuzz(rng.choice([0.05, 0.15, 0.3]), rng.random())
            counter = itertools.count()

            def client(k, ops):
                for op in ops:
                    n = next(counter)
                    if op == "complete":
                        e.complete(kind)
                    elif op == "cancel":
                        p.cancel("c%d" % n)
                    elif op == "add_cb":
                        p.add_cb("cb%d" % n)
                    else:
                        p.add_cb("cb%d" % n, nested="n%d" % n)
            progs = [[rng.choice(OPS) for _ in range(rng.randint(2, 6))] for _ in range(3)]
            acts = [ctx.actor("C%d" % k, client, k, progs[k]).go() for k in range(3)]
            if drive(acts, timeout=60) not in ("ok",):
                if LM.deadlocks:
                    check_common(res)
                    harness.mark_recycle()
                    return
                raise Inconclusive("fuzz clients stuck: " + instr.describe_threads())
            TR.set_fuzz(0.0)
            instr.advance(0.6)
            e.complete(kind)
            instr.advance(1.2)
            p.add_cb("post")
            p.cancel("late")
            res.execs += 1
            check_common(res)
            sig = hash(tuple((ev[2], ev[3], ev[4].get("name"), ev[4].get("who")) for ev in LOG.events)) & 0xFFFFFF
            if p.judge(res, "fuzz/%s/%s" % (entry, kind)):
                res.key("fuzz", entry, kind, "%06x" % sig)
            else:
                res.count("foreign.future_still_pending")
        finally:
            end(ctx)


def run_case(case, res):
    harness.JUDGE_CALLBACK_ESCAPES[0] = True
    k = case["kind"]
    if k == "nested":
        rng = random.Random("c02n/%s/%s" % (case["seed"], case["name"]))
        SweepNested(NScenario(case["entry"], case["ckind"], case["x"]), res, "vt", case["name"]).run(None, None, rng, per_site=1, budget=case["budget"])
    elif k == "pairs":
        run_pairs(case, res)
    elif k == "chain":
        run_chain(case, res)
    elif k == "reentrant":
        run_reentrant(case, res)
    elif k == "simple":
        run_simple(case, res)
    elif k == "waiters":
        run_waiters(case, res)
    else:
        run_fuzz(case, res)
