"""C16 - f_apply calls the function once, with every argument in its place.

fn future + positional / keyword argument futures are spies completed by the
harness in every order (<= 5 futures exhaustively, more sampled); failing input at
each position; failing fn; two completions overlapping at one / two placements."""
import random
import itertools
import concurrent.futures as cf

from .. import instr, harness
from ..harness import (Sweep, SweepNested, Ctx, SpyFuture, check_common, begin, end, UserErrorA, UserErrorB, outcome, outcome_repr)
from ..instr import LOG, TR, LM

TITLE = "f_apply"
RULE = ("one execution = f_apply(fn_future, p positional, q keyword spy futures) with one completion order (all orders for "
        "<= 5 futures, sampled beyond), optionally one failing input or a failing fn, or two completions overlapping at one or two "
        "placements; distinct & non-trivial = (p, q, order, failing position | placement site) whose output reached a terminal state")
REQUIRED = ["line_events", "lock_acquisitions"]
KW = ["ka", "kb", "kc"]


def cases(tier, seed):
    out = []
    for p in range(0, 5):
        for q in range(0, 4):
            out.append({"name": "apply.order/p=%d/q=%d" % (p, q), "kind": "order", "p": p, "q": q,
                        "sample": 60 if tier == "quick" else 1500})
    for (p, q) in ((20, 0), (60, 5), (100, 0), (0, 100), (300, 40)) + (((1000, 0), (500, 500)) if tier == "thorough" else ()):
        out.append({"name": "apply.large/p=%d/q=%d" % (p, q), "kind": "large", "p": p, "q": q})
    out.append({"name": "apply.arities/0-45", "kind": "arities", "max": 45})
    cap = 30 if tier == "quick" else None
    for (p, q) in ((1, 0), (2, 0), (1, 1), (0, 2), (2, 2)):
        for pair in ((0, 1), (1, 0), (1, 2), (2, 1)):
            if max(pair) > p + q:
                continue
            out.append({"name": "apply.concurrent/p=%d/q=%d/%d|%d" % (p, q, pair[0], pair[1]), "kind": "conc", "p": p, "q": q, "pair": list(pair), "cap": cap})
            # quick: the canonical two-thread race (earlier argument | later argument) swept completely,
            # the other configurations sampled; thorough: everything completely
            full = tier == "thorough" or ((p, q) == (2, 0) and tuple(pair) == (1, 2))
            parts = 32 if full else 2
            for part in range(parts):
                out.append({"name": "apply.nested/p=%d/q=%d/%d|%d/%d" % (p, q, pair[0], pair[1], part), "kind": "nested", "p": p, "q": q,
                            "pair": list(pair), "budget": None if full else 150, "slice": [part, parts]})
    return out


class FalsyError(Exception):
    """an exception whose truth value is False (e.g. an error collection that is empty)"""

    def __len__(self):
        return 0


class Facade(object):
    """future-like object that is not a concurrent.futures.Future subclass"""

    def __init__(self, inner):
        self._inner = inner

    def add_done_callback(self, fn):
        self._inner.add_done_callback(lambda _f: fn(self))

    def result(self, timeout=None):
        return self._inner.result(timeout)

    def exception(self, timeout=None):
        return self._inner.exception(timeout)

    def cancelled(self):
        return self._inner.cancelled()

    def cancel(self):
        return self._inner.cancel()

    def done(self):
        return self._inner.done()

    def running(self):
        return self._inner.running()


class World(object):
    def __init__(self, p, q, fail_fn=False, falsy=False, facade=False, derived=False):
        F = instr.ME.futures
        self.p, self.q = p, q
        self.calls = []
        self.e_fn = UserErrorB("fn")
        self.fail_fn = fail_fn
        self.falsy = falsy
        self.futs = [SpyFuture("fn")] + [SpyFuture("p%d" % i) for i in range(p)] + [SpyFuture("k%d" % i) for i in range(q)]
        given = [Facade(f) for f in self.futs] if facade else list(self.futs)
        if derived == "proxy":
            # the inputs come from f_proxy (their unknown attributes are forwarded to the result)
            given = [F.f_proxy(f) for f in self.futs]
        elif derived:
            # the inputs are futures of this library (outputs of f_map) on which the user had already put a
            # done-callback of their own - one that raises
            given = [F.f_map(f, lambda v: v) for f in self.futs]

            def user_cb(_f):
                raise UserErrorB("user's own done-callback")
            for g in given:
                g.add_done_callback(user_cb)
        kw = {KW[i]: given[1 + p + i] for i in range(q)}
        self.out = F.f_apply(given[0], *given[1:1 + p], **kw)
        self.excs = {}

    def fn(self, *a, **k):
        self.calls.append((a, sorted(k.items())))
        if self.fail_fn:
            raise self.e_fn
        return ("call", a, sorted(k.items()))

    def complete(self, i, fail=False):
        f = self.futs[i]
        if f.done():
            return False
        try:
            if fail:
                f.set_exception(self.excs.setdefault(i, (FalsyError if self.falsy else UserErrorA)("input%d" % i)))
            elif i == 0:
                f.set_result(self.fn)
            else:
                f.set_result(("arg", i))
        except cf.InvalidStateError:
            return False
        return True

    def expected(self):
        a = tuple(("arg", 1 + i) for i in range(self.p))
        k = sorted((KW[i], ("arg", 1 + self.p + i)) for i in range(self.q))
        return ("call", a, k)

    def judge(self, res, label, failing=None, all_done=True):
        o = outcome(self.out)
        if len(self.calls) > 1:
            res.violation("fn-called-%d-times" % len(self.calls), "%s: fn was called %d times" % (label, len(self.calls)))
        if failing is not None:
            # some input failed: output fails with one of the failing inputs' exceptions
            if o[0] != "exc" or not any(o[1] is e for e in self.excs.values()):
                res.violation("input-failure-not-propagated", "%s: output is %s although input(s) %s failed" % (label, outcome_repr(o), sorted(self.excs)))
            if self.calls and 0 in self.excs:
                res.violation("fn-called-although-fn-future-failed", label)
            return o[0] != "pending"
        if not all_done:
            if self.calls:
                res.violation("fn-called-before-all-inputs", "%s: fn called while an input was still pending" % label)
            return False
        if self.fail_fn:
            if o[0] != "exc" or o[1] is not self.e_fn:
                res.violation("fn-exception-lost", "%s: fn raised, output is %s" % (label, outcome_repr(o)))
            return o[0] != "pending"
        if o[0] == "pending":
            res.violation("output-pending", "%s: all inputs resolved, output still pending, fn called %d times" % (label, len(self.calls)))
            return False
        if o != ("value", self.expected()):
            res.violation("wrong-arguments", "%s: fn received %s, expected %s" % (label, str(self.calls or outcome_repr(o))[:300], str(self.expected()[1:])[:300]))
        elif len(self.calls) != 1:
            res.violation("fn-called-%d-times" % len(self.calls), label)
        return True


def run_order(case, res):
    p, q = case["p"], case["q"]
    n = 1 + p + q
    rng = random.Random("c16/%s/%s" % (case["seed"], case["name"]))
    import math
    if math.factorial(n) <= case["sample"]:
        orders = list(itertools.permutations(range(n)))
    else:
        base = list(range(n))
        orders = []
        for _ in range(case["sample"]):
            rng.shuffle(base)
            orders.append(tuple(base))
    variants = ([("ok", None)] + [("fail", i) for i in range(n)] + [("fail_fn", None)] + [("fail_falsy", i) for i in range(n)]
                + [("facade", None)] + [("facade_fail", n - 1)] + [("derived", None)] + [("derived_fail", n - 1)]
                + [("proxy", None)] + [("proxy_fail", i) for i in range(n)])
    for order in orders:
        for kind, pos in (variants if len(orders) <= 24 else [variants[rng.randrange(len(variants))], ("ok", None)]):
            begin("rt")
            ctx = Ctx()
            try:
                failing = kind in ("fail", "fail_falsy", "facade_fail", "derived_fail", "proxy_fail")
                w = World(p, q, fail_fn=(kind == "fail_fn"), falsy=(kind == "fail_falsy"), facade=kind.startswith("facade"),
                          derived=("proxy" if kind.startswith("proxy") else kind.startswith("derived")))
                # fn must not run before the last input resolves
                for step, i in enumerate(order):
                    w.complete(i, fail=(failing and i == pos))
                    if step < n - 1 and not failing:
                        w.judge(res, "f_apply p=%d q=%d order=%s after %d completions" % (p, q, order, step + 1), all_done=False)
                res.execs += 1
                label = "f_apply p=%d q=%d order=%s %s" % (p, q, order, kind + ("@%s" % pos if pos is not None else ""))
                if w.judge(res, label, failing=pos if failing else None):
                    res.key(p, q, order, kind, pos)
                res.sample({"positional": p, "keyword": q, "completion_order": order, "variant": [kind, pos], "fn_calls": w.calls[:1],
                            "output": outcome_repr(outcome(w.out))}, limit=1)
            finally:
                end(ctx)
    check_common(res)


def run_arities(case, res):
    """Every total number of inputs from 0 to max (positional / keyword split varied), function future last and first."""
    global KW
    for total in range(0, case["max"] + 1):
        for q in sorted(set([0, min(total, 2), total // 2])):
            p = total - q
            while len(KW) < q:
                KW = list(KW) + ["kw%d" % len(KW)]
            for fn_last in (True, False):
                begin("rt")
                ctx = Ctx()
                try:
                    w = World(p, q)
                    order = list(range(1, 1 + p + q))
                    order = order + [0] if fn_last else [0] + order
                    for i in order:
                        w.complete(i)
                    res.execs += 1
                    label = "f_apply with %d positional and %d keyword inputs, function future %s" % (p, q, "last" if fn_last else "first")
                    if w.judge(res, label):
                        res.key("arity", p, q, fn_last)
                finally:
                    end(ctx)
    check_common(res)


def run_large(case, res):
    """Many arguments: the function future first / last / in the middle, arguments in order / reversed / shuffled,
    one failing input somewhere."""
    p, q = case["p"], case["q"]
    n = 1 + p + q
    rng = random.Random("c16l/%s/%s" % (case["seed"], case["name"]))
    global KW
    while len(KW) < q:
        KW = list(KW) + ["kw%d" % len(KW)]
    for fn_pos in ("first", "last", "middle"):
        for arg_order in ("forward", "reversed", "shuffled"):
            for failing in (None, "some"):
                begin("rt")
                ctx = Ctx()
                try:
                    w = World(p, q)
                    rest = list(range(1, n))
                    if arg_order == "reversed":
                        rest.reverse()
                    elif arg_order == "shuffled":
                        rng.shuffle(rest)
                    k = {"first": 0, "last": len(rest), "middle": len(rest) // 2}[fn_pos]
                    order = rest[:k] + [0] + rest[k:]
                    bad = rng.choice(rest) if failing else None
                    for i in order:
                        w.complete(i, fail=(i == bad))
                    res.execs += 1
                    label = "f_apply p=%d q=%d function future %s, arguments %s%s" % (p, q, fn_pos, arg_order, ", input %d fails" % bad if bad else "")
                    if w.judge(res, label, failing=bad):
                        res.key("large", p, q, fn_pos, arg_order, failing)
                    res.sample({"positional": p, "keyword": q, "function_future_resolves": fn_pos, "arguments": arg_order,
                                "failing_input": bad, "output": outcome_repr(outcome(w.out))[:80]}, limit=1)
                finally:
                    end(ctx)
    check_common(res)


class ConcScenario(object):
    def __init__(self, case):
        self.case = case

    def setup(self):
        ctx = Ctx()
        w = World(self.case["p"], self.case["q"])
        ctx.w = w
        a, b = self.case["pair"]
        for i in range(len(w.futs)):
            if i not in (a, b):
                w.complete(i)
        return ctx

    def victim_role(self, ctx):
        return "V"

    role_a = victim_role

    def start_victim(self, ctx):
        return ctx.actor("V", ctx.w.complete, self.case["pair"][0]).go()

    start_a = start_victim

    def intervene(self, ctx):
        ctx.w.complete(self.case["pair"][1])

    intervene1 = intervene

    def finish(self, ctx):
        pass

    def oracle(self, ctx, res, info):
        label = "%s placement=%s/%s" % (self.case["name"], info.get("site"), info.get("site2"))
        ctx.w.judge(res, label)
        if info.get("hit"):
            res.key("conc", self.case["name"], info.get("site"), info.get("site2"))


def run_case(case, res):
    k = case["kind"]
    rng = random.Random("c16/%s/%s" % (case["seed"], case["name"]))
    if k == "large":
        return run_large(case, res)
    if k == "arities":
        return run_arities(case, res)
    if k == "order":
        run_order(case, res)
    elif k == "nested":
        SweepNested(ConcScenario(case), res, "rt", case["name"]).run(None, None, rng, per_site=2, budget=case["budget"], a_slice=case.get("slice"))
    else:
        Sweep(ConcScenario(case), res, "rt", case["name"]).run(case["cap"], rng, per_site=2)
