"""C01 - composed executors deliver each callable's own outcome, exactly once.

* ``stack.fuzz``  generated layer stacks (depth <= 6, every layer type, any order) over sync /
                  thread-pool bases, 1-8 submitter threads, per-submission outcome scripts, under
                  seeded yield injection; every outcome and every invocation is compared with the
                  sequential model (stacks.model)
* ``pair.route``  every ordered pair of layer types over a manual delegate (virtual time):
                  a second submission is submitted / completed at every statement boundary of the
                  first one's completion chain and of the worker's iteration
"""
import random
import itertools
import concurrent.futures as cf

from .. import instr, harness, stacks
from ..harness import (Sweep, Ctx, ManualExecutor, call, check_common, begin, end, drive, Recorded,
                       UserError, UserErrorA, UserErrorB, OtherError, outcome, outcome_repr)
from ..instr import LOG, TR, LM, Inconclusive

TITLE = "composition"
RULE = ("one execution = one generated stack (depth 1-6 over sync or a thread pool with 1-8 workers) with 5-50 submissions "
        "from 1-8 submitter threads under seeded yield injection, each submission with its own outcome script and arguments; "
        "or one 2-layer stack over a manual delegate with a second submission acting at one placement inside the first one's "
        "completion chain / the worker iteration; distinct & non-trivial = (stack, scripts signature, schedule signature | "
        "placement site) with at least two submissions in flight together")
REQUIRED = ["line_events", "lock_acquisitions", "fuzz_yields"]
TYPES = stacks.LAYER_TYPES


def cases(tier, seed):
    out = []
    n = 48 if tier == "quick" else 4000
    per = 6 if tier == "quick" else 8
    for i in range(n):
        out.append({"name": "stack.fuzz/%d" % i, "kind": "fuzz", "idx": i, "n": per})
    cap = 10 if tier == "quick" else 40
    pairs = list(itertools.product(TYPES, TYPES))
    for a, b in pairs:
        out.append({"name": "pair.route/%s>%s" % (a, b), "kind": "route", "layers": [a, b], "cap": cap})
    # the same with suspension points at bytecode-instruction boundaries (windows inside one statement)
    for layers in ([[t] for t in TYPES] + ([list(p) for p in pairs] if tier == "thorough" else [["map", "poll"], ["poll", "map"], ["retry", "poll"]])):
        out.append({"name": "pair.route-instr/%s" % ">".join(layers), "kind": "route", "layers": layers,
                    "cap": None if len(layers) == 1 else (60 if tier == "quick" else 400), "gran": "instr"})
    # work handed through a blocking throttle below a retry layer, ended by the delegate's own threads: no outcome is
    # dropped (shared with C04, which looks at the same runs for blocking)
    for above in ([], ["map"]):
        for how in ("value", "exc"):
            out.append({"name": "stack.blocking-throttle/%s/%s" % (">".join(["throttle", "retry"] + above), how), "kind": "blockretrym",
                        "above": above, "how": how})
    # recursive decomposition over an inline base: a callable (or a map / flat_map function) submits follow-up work to
    # the same composed executor and uses its result
    for layers in (["cos"], ["map", "cos"], ["cos", "map"], ["flat_map", "cos"], ["cos", "cos"], ["map"], ["flat_map"], ["cos", "flat_map", "map"]):
        for site in ("callable", "fn"):
            out.append({"name": "stack.nested-inline/%s/%s" % (">".join(layers), site), "kind": "nestedinline", "layers": layers, "site": site})
    for a in TYPES:
        # a poll function that raises once: exactly the submissions it was shown fail with that exception
        out.append({"name": "pair.route-raise/%s>poll" % a, "kind": "route", "layers": [a, "poll"], "cap": cap * 2, "poll_raise": True})
    return out


def check_submission(res, label, spec, script, fn, f, args_kwargs, timeout=20.0):
    try:
        cf.wait([f], timeout=timeout)
    except Exception:
        pass
    exp, n_calls = stacks.model(spec, script)
    o = outcome(f)
    sid = script.sid
    where = "%s submission %s" % (label, sid)
    if o[0] == "pending":
        res.violation("outcome-dropped", "%s: future still pending %ss after submission (callable ran %d times, model %d; model outcome %s)"
                      % (where, timeout, len(fn.calls), n_calls, exp[:2]))
        return False
    if o[0] == "cancelled":
        res.violation("unexpected-cancel", "%s: future is cancelled although nobody cancelled it" % where)
        return False
    ok = True
    if exp[0] == "value":
        if o != ("value", exp[1]):
            ok = False
            res.violation("wrong-outcome/value", "%s: got %s, sequential evaluation gives %r" % (where, outcome_repr(o), exp[1]))
    else:
        if o[0] != "exc" or type(o[1]) is not exp[1]:
            ok = False
            res.violation("wrong-outcome/exception", "%s: got %s, sequential evaluation gives %s from %s" % (where, outcome_repr(o), exp[1].__name__, exp[2]))
        elif exp[2].startswith("callable#"):
            i = int(exp[2].split("#")[1])
            if i >= len(fn.raised) or o[1] is not fn.raised[i]:
                ok = False
                res.violation("exception-identity", "%s: propagated exception %r is not the object raised by invocation %d" % (where, o[1], i))
    if len(fn.calls) != n_calls:
        ok = False
        res.violation("invocation-count/%s" % ("more" if len(fn.calls) > n_calls else "fewer"),
                      "%s: callable invoked %d times, sequential evaluation %d" % (where, len(fn.calls), n_calls))
    for c in fn.calls:
        if (c["args"], c["kwargs"]) != args_kwargs:
            ok = False
            res.violation("wrong-arguments", "%s: callable invoked with %r %r, submitted %r" % (where, c["args"], c["kwargs"], args_kwargs))
    return ok


def run_fuzz(case, res):
    rng = random.Random("c01/%s/%s" % (case["seed"], case["idx"]))
    for it in range(case["n"]):
        begin("rt")
        ctx = Ctx()
        try:
            spec = stacks.gen_spec(rng, max_depth=6, bases=("sync", "pool", "pool"))
            for L in spec["layers"]:
                if L["t"] == "retry":
                    L["sleep"] = 0
                if L["t"] == "poll":
                    L["interval"] = 0.002
            nsub = rng.choice([5, 8, 12, 20, 50]) if spec["base"] == "pool" else rng.choice([5, 8, 12])
            nthreads = rng.randint(1, 8) if spec["base"] == "pool" else rng.randint(1, 3)
            b = stacks.build(ctx, spec)
            scripts = [stacks.gen_script(rng, sid) for sid in range(nsub)]
            fns = [stacks.make_callable(scripts[sid]) for sid in range(nsub)]
            args = [((sid, "a%d" % sid), {"k": sid} if sid % 3 == 0 else {}) for sid in range(nsub)]
            # the scripted callable ignores its arguments; wrap to accept them
            futs = [None] * nsub
            errors = []
            TR.set_fuzz(rng.choice([0.01, 0.03, 0.08]), rng.random())

            # the last third of the submissions are follow-ups: each is submitted from a done-callback of an earlier
            # submission (on whatever thread completes that one), as chained work would be
            # (not with a blocking throttle in the stack: a submit() that may block, issued from the delegate's own worker
            # thread, can starve itself - that is the workload's deadlock, not the library's)
            blocking = any(L.get("block") for L in spec["layers"])
            nfollow = nsub // 3 if (rng.random() < 0.5 and not blocking) else 0
            first = nsub - nfollow
            follow_evt = [instr._RealEvent() for _ in range(nsub)]

            def follow_up(parent_sid, sid):
                def cb(_f):
                    try:
                        futs[sid] = b.top.submit(fns[sid], *args[sid][0], **args[sid][1])
                    except BaseException as e:
                        errors.append((sid, e))
                    follow_evt[sid].set()
                return cb

            def submitter(k):
                for sid in range(k, first, nthreads):
                    try:
                        futs[sid] = b.top.submit(fns[sid], *args[sid][0], **args[sid][1])
                        child = first + sid
                        if child < nsub:
                            futs[sid].add_done_callback(follow_up(sid, child))
                    except BaseException as e:
                        errors.append((sid, e))
            acts = [ctx.actor("S%d" % k, submitter, k).go() for k in range(nthreads)]
            why = drive(acts, timeout=120)
            label = "%s depth=%d threads=%d" % (stacks.spec_name(spec), len(spec["layers"]), nthreads)
            if why != "ok":
                TR.set_fuzz(0.0)
                res.execs += 1
                check_common(res)
                if not LM.deadlocks:
                    res.count("foreign.submit_hang")
                harness.mark_recycle()
                return
            for sid, e in errors:
                res.violation("submit-raised/%s" % type(e).__name__, "%s: submit of %d raised %r" % (label, sid, e))
            ok_all = True
            deadline = instr._real_monotonic() + 20.0  # shared by all submissions of this execution
            for sid in range(first, nsub):
                # follow-ups exist once their parent is done (checked first below, in submission order)
                pass
            for sid in range(nsub):
                if sid >= first and futs[sid] is None:
                    follow_evt[sid].wait(max(0.0, deadline - instr._real_monotonic()))
                    if futs[sid] is None and not any(s_ == sid for s_, _ in errors):
                        res.violation("outcome-dropped/follow-up-never-submitted", "%s: the done-callback that submits follow-up %d never ran "
                                      "or its submit() never returned (parent %s)" % (label, sid, outcome_repr(outcome(futs[sid - first]))
                                                                                     if futs[sid - first] is not None else "?"))
                if futs[sid] is None:
                    continue
                ok_all &= bool(check_submission(res, label, spec, scripts[sid], fns[sid], futs[sid], args[sid],
                                                timeout=max(0.0, deadline - instr._real_monotonic())))
            TR.set_fuzz(0.0)
            res.execs += 1
            check_common(res)
            sig = hash(tuple(e[2] for e in LOG.events if e[3] == "fn.start")) & 0xFFFFFF
            res.key(stacks.spec_name(spec), nthreads, nsub, "%06x" % sig)
            res.count("submissions_checked", nsub)
            res.sample({"stack": stacks.spec_name(spec), "workers": spec.get("workers"), "submitters": nthreads, "submissions": nsub,
                        "scripts": [[st[0] if st[0] == "ret" else st[1].__name__ for st in s.steps] for s in scripts[:4]],
                        "outcomes": [outcome_repr(outcome(f)) for f in futs[:4] if f is not None]}, limit=1)
        finally:
            end(ctx)
            if harness.need_recycle():
                return


# The scripted callable takes no parameters in stacks.make_callable; accept anything here
_orig_make = stacks.make_callable


def _make_callable(script, log_id=None):
    r = _orig_make(script, log_id)
    return r


class RScenario(object):
    """2-layer stack over a manual delegate: submissions A and B; the victim is A's completion chain (or
    the worker reacting to it), the intervention acts for B / C."""

    def __init__(self, case, victim, second):
        self.case, self.victim, self.second = case, victim, second
        self.spec = {"base": "me", "layers": []}
        for k, t in enumerate(case["layers"]):
            L = {"t": t, "k": k}
            if t == "retry":
                L.update(max_attempts=2, sleep=0.25)
            if t == "throttle":
                L.update(count=2)
            if t == "poll":
                L.update(interval=0.5)
                if case.get("poll_raise") and k == len(case["layers"]) - 1:
                    L.update(mode="raise_once")
            if t == "timeout":
                L.update(timeout=1000.0)
            if t == "map":
                L.update(fn="tag", error_fn=None)
            if t == "flat_map":
                L.update(fn="ret")
            self.spec["layers"].append(L)

    def setup(self):
        ctx = Ctx()
        n0 = len(instr.TRACKED)
        ctx.b = stacks.build(ctx, self.spec)
        ctx.threads = [t for t in instr.TRACKED[n0:]]
        ctx.me = ctx.b.base
        ctx.scripts = [stacks.Script(0, [("ret",)]), stacks.Script(1, [("raise", UserErrorA), ("ret",)]), stacks.Script(2, [("ret",)])]
        ctx.fns = [stacks.make_callable(s) for s in ctx.scripts]
        ctx.futs = [ctx.b.top.submit(ctx.fns[0], 0), ctx.b.top.submit(ctx.fns[1], 1)]
        ctx.args = [((0,), {}), ((1,), {}), ((2,), {})]
        instr.advance(0.05)
        return ctx

    def run_item_of(self, ctx, sid):
        for k in ctx.me.pending():
            if getattr(ctx.me.items[k][1], "vf_id", None) == "call%d" % sid:
                ctx.me.run(k)
                return True
        return False

    def act(self, ctx, what):
        if what == "completeA":
            self.run_item_of(ctx, 0)
        elif what == "completeB":
            self.run_item_of(ctx, 1)
        elif what in ("submitC", "runC"):
            if len(ctx.futs) < 3:
                ctx.futs.append(ctx.b.top.submit(ctx.fns[2], 2))
            if what == "runC":
                # ... and its delegate work finishes right away (on this thread)
                for _ in range(3):
                    if self.run_item_of(ctx, 2):
                        break
                    import time as _t
                    _t.sleep(0.002)

    def victim_role(self, ctx):
        if self.victim == "worker" and ctx.threads:
            return ctx.threads[-1].vf_role
        return "V"

    def start_victim(self, ctx):
        role = "T" if (self.victim == "worker" and ctx.threads) else "V"
        return ctx.actor(role, self.act, ctx, "completeA").go()

    def intervene(self, ctx):
        self.act(ctx, self.second)

    def finish(self, ctx):
        for _ in range(8):
            instr.advance(0.6)
            for k in ctx.me.pending():
                ctx.me.run(k)
            if all(f.done() for f in ctx.futs) and not ctx.me.pending():
                break
        instr.advance(1.0)

    def oracle(self, ctx, res, info):
        label = "%s victim=%s second=%s placement=%s" % (self.case["name"], self.victim, self.second, info.get("site"))
        raised = None
        for key, val in ctx.b.poll_state.items():
            if isinstance(key, tuple) and key[0] == "raised":
                raised = val
        shown = set()
        if raised is not None:
            for r in raised[1]:
                x = r
                while isinstance(x, tuple) and x and x[0] != "v":
                    x = x[-1]
                if isinstance(x, tuple) and len(x) == 2:
                    shown.add(x[1])
        for sid, f in enumerate(ctx.futs):
            if sid in shown:
                o = outcome(f)
                if o[0] != "exc" or o[1] is not raised[0]:
                    res.violation("poll-failure-not-delivered", "%s submission %d was shown to the raising poll call but has %s" % (label, sid, outcome_repr(o)))
                continue
            check_submission(res, label, self.spec, ctx.scripts[sid], ctx.fns[sid], f, ctx.args[sid], timeout=0)
        if info.get("hit"):
            res.key("route", self.case["name"], self.victim, self.second, info.get("site"))


def run_route(case, res):
    rng = random.Random("c01/%s/%s" % (case["seed"], case["name"]))
    has_worker = bool(set(case["layers"]) & {"retry", "poll", "throttle", "timeout"})
    for victim in (("chain", "worker") if has_worker else ("chain",)):
        for second in ("completeB", "submitC", "runC"):
            Sweep(RScenario(case, victim, second), res, "vt", case["name"], gran=case.get("gran")).run(case["cap"], rng, per_site=1)
            if harness.need_recycle():
                return


def run_nestedinline(case, res):
    ME = instr.ME
    F = ME.futures
    for depth in (1, 3):
        begin("rt")
        ctx = Ctx()
        try:
            top_box = {}
            calls = []

            def child(k):
                calls.append(("child", k))
                if k > 0 and case["site"] == "callable":
                    return ("c", k, top_box["top"].submit(child, k - 1).result(10))
                return ("c", k)

            def mapfn(x):
                # a map function that fans out once per top-level value
                if case["site"] == "fn" and isinstance(x, tuple) and x and x[0] == "c" and x[1] == depth and not top_box.get("fanned"):
                    top_box["fanned"] = True
                    return ("m", x, top_box["top"].submit(child, 0).result(10))
                return ("m", x)
            cur = ctx.own(ME.Executors.sync())
            for t in case["layers"]:
                if t == "cos":
                    cur = cur.with_cancel_on_shutdown()
                elif t == "map":
                    cur = cur.with_map(mapfn)
                else:
                    cur = cur.with_flat_map(lambda x: F.f_return(mapfn(x)))
                ctx.own(cur)
            top_box["top"] = cur
            box = {}

            def client():
                box["f"] = cur.submit(child, depth)
            a = ctx.actor("C", client).go()
            why = drive([a], timeout=15, use_time=False)
            res.execs += 1
            check_common(res, deadlock_suffix="@nested-inline/%s" % case["site"])
            label = "sync>%s, nested submission from the %s, depth %d" % (">".join(case["layers"]), case["site"], depth)
            if LM.deadlocks:
                harness.mark_recycle()
                continue
            if why != "ok" or "f" not in box:
                res.violation("outcome-dropped/nested-inline", "%s: submit() did not return (%s): %s" % (label, why, instr.describe_threads()))
                harness.mark_recycle()
                continue
            o = outcome(box["f"])
            if o[0] != "value":
                res.violation("outcome-dropped/nested-inline" if o[0] == "pending" else "wrong-outcome/nested-inline",
                              "%s: the outer future is %s" % (label, outcome_repr(o)))
            res.key("nestedinline", ">".join(case["layers"]), case["site"], depth)
            res.sample({"stack": case["layers"], "nested_from": case["site"], "depth": depth, "calls": len(calls), "outcome": outcome_repr(o)}, limit=1)
        finally:
            end(ctx)
        if harness.need_recycle():
            return


def run_case(case, res):
    if case["kind"] == "nestedinline":
        return run_nestedinline(case, res)
    if case["kind"] == "blockretrym":
        from . import c04
        return c04.run_blockretrym(case, res)
    if case["kind"] == "fuzz":
        run_fuzz(case, res)
    else:
        run_route(case, res)
