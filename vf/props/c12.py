"""C12 - worker threads and references are reclaimed; pending futures keep working.

(a) ``drop.ref``      worker thread exits after shutdown() and after the last user reference
                      is dropped - the drop is placed at every statement boundary of the
                      worker's iteration (virtual time, manual delegate)
(b) ``exit.child``    interpreter exit in a child process: worker paused at a statement /
                      exit hook paused at a statement; exit code 0, clean stderr, no live worker
(c) ``retain.history`` after a future is done and dropped, weakrefs to it, its callable,
                      argument and result die while the executor lives on
(d) ``pending.keepalive`` a pending future completes although the user dropped the executor
"""
import gc
import os
import sys
import json
import random
import weakref
import subprocess

from .. import instr, harness, stacks
from ..harness import (Sweep, Ctx, ManualExecutor, call, check_common, begin, end, drive, UserErrorA)
from ..instr import LOG, TR, LM, Inconclusive

TITLE = "reclamation"
RULE = ("one execution = one threaded executor type over a manual delegate with one history (completed / failed / "
        "cancelled in flight / cancelled while queued / cancelled between retries / polling) followed by dropping the user's "
        "references (at one placement inside the worker's iteration for drop.ref), or one child interpreter exiting at one "
        "placement; distinct & non-trivial = (executor type, history, placement site) where the liveness of threads / weakrefs "
        "was actually sampled after garbage collection")
REQUIRED = ["line_events", "lock_acquisitions", "vevent_waits"]
THREADED = ["retry", "poll", "throttle", "timeout"]
ALL = ["retry", "poll", "throttle", "timeout", "map", "flat_map", "cos"]
ROOT = os.path.dirname(os.path.dirname(os.path.dirname(os.path.abspath(__file__))))


def cases(tier, seed):
    out = []
    cap = 16 if tier == "quick" else None
    for t in THREADED:
        for trig in ("submit", "complete", "timer") + (("fail",) if t == "retry" else ()):
            out.append({"name": "drop.ref/%s/%s" % (t, trig), "kind": "drop", "layer": t, "trigger": trig, "cap": cap})
        for state in ("idle", "busy", "backoff" if t == "retry" else "polling" if t == "poll" else "busy"):
            for mode in ("worker", "hook"):
                out.append({"name": "exit.child/%s/%s/%s" % (t, state, mode), "kind": "exit", "layer": t, "state": state, "mode": mode,
                            "n": 6 if tier == "quick" else 400})
        out.append({"name": "shutdown.thread/%s" % t, "kind": "sdthread", "layer": t})
    for t in ALL:
        out.append({"name": "retain.history/%s" % t, "kind": "retain", "layer": t})
        out.append({"name": "pending.keepalive/%s" % t, "kind": "keepalive", "layer": t})
    for t in ALL:
        out.append({"name": "held.futures/%s" % t, "kind": "held", "layer": t})
    for t in ("poll", "retry", "throttle", "timeout", "map"):
        for vop in ("complete", "fail"):
            out.append({"name": "retain.sweep/%s/%s|cancel" % (t, vop), "kind": "retsweep", "layer": t, "vop": vop,
                        "cap": 24 if tier == "quick" else None})
        out.append({"name": "retain.sweep/%s/cancel|workers" % t, "kind": "retsweep", "layer": t, "vop": "cancel", "cap": None})
    for t in ("retry", "timeout", "poll", "throttle"):
        out.append({"name": "exit.registry/%s" % t, "kind": "registry", "layer": t, "cap": None})
    for comb in ("f_zip", "f_sequence", "f_and", "f_or", "f_map", "f_traverse", "f_apply"):
        for order in ("session_last", "session_first"):
            out.append({"name": "retain.combinator/%s/%s" % (comb, order), "kind": "retcomb", "comb": comb, "order": order})
    for st in (["map", "retry"], ["retry", "throttle"], ["poll", "timeout"], ["throttle", "poll", "map"]):
        out.append({"name": "retain.history/%s" % ">".join(st), "kind": "retain", "layer": ">".join(st)})
    return out


def spec_for(layer, poll_mode="second_call"):
    layers = layer.split(">")
    out = []
    for k, t in enumerate(layers):
        L = {"t": t, "k": k}
        if t == "retry":
            L.update(max_attempts=3, sleep=20.0)
        if t == "throttle":
            L.update(count=1)
        if t == "poll":
            L.update(interval=20.0, mode=poll_mode)
        if t == "timeout":
            L.update(timeout=500.0)
        if t == "map":
            L.update(fn="none")
        if t == "flat_map":
            L.update(fn="none")
        out.append(L)
    return {"base": "me", "layers": out, "keep_args": False}


class Obj(object):
    """weak-referenceable payload"""

    def __init__(self, tag):
        self.tag = tag

    def __repr__(self):
        return "<Obj %s>" % self.tag


class Named(object):
    """weak-referenceable callable"""

    def __init__(self, tag, fn):
        self.tag = tag
        self.fn = fn

    def __call__(self, *a, **kw):
        return self.fn(*a, **kw)


class Job(object):
    def __init__(self, tag, res):
        self.tag = tag
        self.vf_id = "job-" + tag
        self.res = res

    def __call__(self, arg):
        return self.res


def build_unowned(layer, poll_mode="second_call"):
    """Build a stack without registering it for cleanup (the scenario owns every reference)."""
    ctx = Ctx()
    n0 = len(instr.TRACKED)
    b = stacks.build(ctx, spec_for(layer, poll_mode))
    threads = [t for t in instr.TRACKED[n0:]]
    ctx.executors = []
    return b, threads


def referrer_summary(obj, depth=2):
    out = []
    try:
        for r in gc.get_referrers(obj):
            if r is obj or isinstance(r, type(sys._getframe())):
                continue
            d = type(r).__name__
            if isinstance(r, dict):
                owners = [type(o).__name__ for o in gc.get_referrers(r) if hasattr(o, "__dict__") and getattr(o, "__dict__", None) is r]
                d = "dict of %s" % (owners[:2],)
            elif isinstance(r, (list, tuple)):
                d = "%s(len %d)" % (type(r).__name__, len(r))
            out.append(d)
    except Exception:
        pass
    return out[:6]


# --------------------------------------------------------------------------
# (a) drop.ref
# --------------------------------------------------------------------------
class DropScenario(object):
    def __init__(self, case):
        self.case = case

    def setup(self):
        ctx = Ctx()
        b, threads = build_unowned(self.case["layer"])
        ctx.hold = {"b": b, "futs": []}
        ctx.me = b.base
        ctx.threads = threads
        ctx.wr = weakref.ref(b.top)
        # some history so that the worker has something to look at
        ctx.hold["futs"].append(b.top.submit(Job("a", 1), 0))
        ctx.hold["futs"].append(b.top.submit(Job("b", 2), 0))
        instr.advance(0.05)
        if self.case["trigger"] == "timer" and self.case["layer"] == "retry":
            p = ctx.me.pending()
            if p:
                ctx.me.fail(p[0], UserErrorA("x"))
                instr.advance(0.05)
        b = None
        return ctx

    def victim_role(self, ctx):
        return ctx.threads[-1].vf_role

    def start_victim(self, ctx):
        trig = self.case["trigger"]

        def go():
            h = ctx.hold
            if not h:
                return
            if trig == "submit":
                h["futs"].append(h["b"].top.submit(Job("c", 3), 0))
            elif trig == "complete":
                p = ctx.me.pending()
                if p:
                    ctx.me.complete(p[0], 5)
            elif trig == "fail":
                p = ctx.me.pending()
                if p:
                    ctx.me.fail(p[0], UserErrorA("attempt"))
            else:
                from .c04 import fire_next_timer
                fire_next_timer()
        return ctx.actor("T", go).go()

    def intervene(self, ctx):
        # drop every user reference: executor chain and futures
        ctx.hold.clear()
        gc.collect()

    def finish(self, ctx):
        ctx.hold.clear()
        # a helper finishes the delegate's work, then the delegate forgets its futures
        for _ in range(6):
            instr.advance(0.05)
            p = ctx.me.pending()
            if not p:
                break
            for k in p:
                ctx.me.complete(k, 9)
        instr.advance(0.05)
        ctx.me.forget()
        gc.collect()
        instr.advance(0.05)
        gc.collect()
        instr.advance(0.05)
        # nothing references the executor any more: its weakref callback wakes the worker at once
        ctx.alive_now = [t.vf_role for t in ctx.threads if t.is_alive() and not t.vf_finished]
        ctx.ex_alive_now = ctx.wr() is not None
        instr.advance(130.0)
        gc.collect()
        instr.advance(1.0)

    def oracle(self, ctx, res, info):
        label = "%s placement=%s" % (self.case["name"], info.get("site"))
        alive = [t.vf_role for t in ctx.threads if t.is_alive() and not t.vf_finished]
        ex_alive = ctx.wr() is not None
        if alive:
            res.violation("thread-leak/dropped/%s" % self.case["layer"],
                          "%s: worker thread(s) %s still alive after the last reference was dropped, all work finished, gc and 130 virtual s (executor object %s)"
                          % (label, alive, "still alive: %s" % referrer_summary(ctx.wr()) if ex_alive else "collected"))
        elif ctx.alive_now:
            res.violation("thread-late-exit/dropped/%s" % self.case["layer"],
                          "%s: worker thread(s) %s outlived the executor's last reference (all work finished, gc ran) and exited only after "
                          "virtual time passed; executor object was %s at that point" % (label, ctx.alive_now, "still alive" if ctx.ex_alive_now else "collected"))
        elif ex_alive:
            res.violation("executor-retained/%s" % self.case["layer"], "%s: executor object not collected: referrers %s" % (label, referrer_summary(ctx.wr())))
        if info.get("hit") or info.get("pos") is None:
            res.key("drop", self.case["name"], info.get("site"))
        res.count("thread_liveness_samples", len(ctx.threads))


def run_sdthread(case, res):
    for wait, state in [(w, st) for w in (True, False) for st in ("idle", "busy", "delegate-shutdown-raises")]:
        if True:
            begin("vt")
            ctx = Ctx()
            try:
                b, threads = build_unowned(case["layer"])
                if state == "busy":
                    f = b.top.submit(Job("a", 1), 0)
                    instr.advance(0.05)
                if state == "delegate-shutdown-raises":
                    # an old-style delegate: shutdown(wait=True) without **kwargs, the caller passes cancel_futures
                    real = b.base.shutdown
                    b.base.shutdown = lambda wait=True: real(wait)

                    def sd():
                        try:
                            b.top.shutdown(wait, cancel_futures=True)
                        except TypeError:
                            pass
                    a = ctx.actor("S", sd).go()
                else:
                    a = ctx.actor("S", b.top.shutdown, wait).go()
                if drive([a], use_time=False) != "ok":
                    res.count("foreign.shutdown_hang")
                    continue
                instr.advance(0.05)
                if state == "delegate-shutdown-raises":
                    # shutdown() ended with the delegate's TypeError: the layer is shut down all the same; a worker that
                    # only notices at its next timed wake-up (30 s at most) is accepted here
                    instr.advance(35.0)
                res.execs += 1
                check_common(res)
                alive = [t.vf_role for t in threads if t.is_alive() and not t.vf_finished]
                if alive:
                    res.violation("thread-leak/after-shutdown/%s" % case["layer"],
                                  "%s: %s alive after shutdown(wait=%s) returned and everything settled" % (case["name"], alive, wait))
                res.key("sdthread", case["layer"], wait, state)
                res.count("thread_liveness_samples", len(threads))
            finally:
                end(ctx)


# --------------------------------------------------------------------------
# (c) retain.history
# --------------------------------------------------------------------------
HISTORIES = ["completed", "failed", "cancelled_in_flight", "cancelled_queued", "cancelled_between_retries", "cancelled_polling",
             "completed_after_retry", "completed_at_submit"]


def run_retain(case, res):
    layer = case["layer"]
    layers = layer.split(">")
    for hist, keep_outer in [(h, k) for h in HISTORIES for k in (False, True)]:
        if keep_outer and layers == ["cos"]:
            continue  # cancel_on_shutdown hands out the delegate's own future
        if hist == "cancelled_queued" and "throttle" not in layers:
            continue
        if hist in ("cancelled_between_retries", "completed_after_retry") and "retry" not in layers:
            continue
        if hist == "cancelled_polling" and "poll" not in layers:
            continue
        begin("vt")
        ctx = Ctx()
        try:
            b, threads = build_unowned(layer)
            me = b.base
            res_obj, arg, fn_res = Obj("result"), Obj("arg"), None
            job = Job("t", res_obj)
            wr = {"callable": weakref.ref(job), "argument": weakref.ref(arg), "result": weakref.ref(res_obj)}
            filler = None
            if hist == "cancelled_queued":
                filler = b.top.submit(Job("filler", 0), 0)
                instr.advance(0.05)
            if hist == "completed_at_submit":
                # the delegate finishes the work before its submit() returns (a synchronous / very fast delegate)
                me.auto = harness.run_inline
            f = b.top.submit(job, arg)
            me.auto = None
            wr["future"] = weakref.ref(f)
            instr.advance(0.05)
            mine = [k for k, it in enumerate(me.items) if it[1] is job]
            for k in mine:
                wr["delegate-future#%d" % k] = weakref.ref(me.fut(k))
            ok = True
            if hist == "completed":
                for k in mine:
                    me.run(k)
            elif hist == "failed":
                for k in mine:
                    me.fail(k, UserErrorA("boom"))
                instr.advance(0.05)
                # exhaust retries if any
                for _ in range(4):
                    instr.advance(25.0)
                    for k in [k for k in me.pending() if me.items[k][1] is job]:
                        me.fail(k, UserErrorA("boom"))
            elif hist == "cancelled_in_flight":
                ok = bool(mine) and f.cancel()
            elif hist == "cancelled_queued":
                ok = not mine and f.cancel()
            elif hist == "cancelled_between_retries":
                for k in mine:
                    me.fail(k, UserErrorA("boom"))
                instr.advance(0.05)
                ok = (not f.done()) and f.cancel()
            elif hist == "cancelled_polling":
                for k in mine:
                    me.run(k)
                instr.advance(0.05)
                ok = (not f.done()) and f.cancel()
            elif hist == "completed_after_retry":
                for k in mine:
                    me.fail(k, UserErrorA("boom"))
                instr.advance(25.0)
                for k in [k for k in me.pending() if me.items[k][1] is job]:
                    me.run(k)
            instr.advance(25.0)
            if filler is not None:
                for k in me.pending():
                    me.complete(k, 0)
                instr.advance(0.05)
            done = f.done()
            if not ok or not done:
                res.count("history_not_reached")
                continue
            # the user drops everything (or keeps only the finished future); the delegate forgets its finished work
            for k in [k for k, it in enumerate(me.items) if it[1] is job]:
                wr.setdefault("delegate-future#%d" % k, weakref.ref(me.fut(k)))
            kept = f if keep_outer else None
            if keep_outer:
                del wr["future"]
            del f, job, arg, res_obj, filler
            me.forget()
            gc.collect()
            instr.advance(0.05)
            gc.collect()
            res.execs += 1
            check_common(res)
            for what, r in wr.items():
                if keep_outer and what == "result":
                    continue  # the kept future owns its outcome
                o = r()
                if o is not None:
                    what_ = what.split("#")[0]
                    res.violation("retained/%s/%s%s" % (hist, what_, "/by-held-future" if keep_outer else ""),
                                  "%s history=%s%s: %s still referenced after the future was done%s and gc ran; held by %s"
                                  % (layer, hist, " (user keeps the finished future)" if keep_outer else "", what,
                                     "" if keep_outer else ", dropped", referrer_summary(o)))
                    del o
            alive = [t.vf_role for t in threads if t.is_alive()]
            res.key("retain", layer, hist, keep_outer)
            res.count("weakref_samples", len(wr))
            kept = None
            res.sample({"stack": layer, "history": hist, "weakrefs_dead": {k: r() is None for k, r in wr.items()}}, limit=2)
            b.top.shutdown(False)
        finally:
            b = None
            end(ctx)


def make_history(b, me, hist, tag):
    """Run one future through a history; returns (future, ok)."""
    job = Job(tag, Obj("r" + tag))
    filler = None
    if hist == "cancelled_queued":
        filler = b.top.submit(Job("filler" + tag, 0), 0)
        instr.advance(0.05)
    f = b.top.submit(job, Obj("a" + tag))
    instr.advance(0.05)
    mine = [k for k, it in enumerate(me.items) if it[1] is job]
    ok = True
    if hist == "completed":
        for k in mine:
            me.run(k)
    elif hist == "failed":
        for _ in range(4):
            for k in [k for k in me.pending() if me.items[k][1] is job]:
                me.fail(k, UserErrorA("boom"))
            instr.advance(25.0)
    elif hist == "cancelled_in_flight":
        ok = bool(mine) and f.cancel()
    elif hist == "cancelled_queued":
        ok = not mine and f.cancel()
    elif hist == "cancelled_between_retries":
        for k in mine:
            me.fail(k, UserErrorA("boom"))
        instr.advance(0.05)
        ok = (not f.done()) and f.cancel()
    elif hist == "delegate_cancelled":
        # the delegate's future is cancelled by its owner, behind the library's back
        ok = bool(mine)
        for k in mine:
            me.fut(k).cancel()
    elif hist == "cancel_refused_then_completed":
        ok = bool(mine)
        for k in mine:
            me.mark_running(k)
        f.cancel()
        for k in mine:
            me.complete(k, Obj("late" + tag))
    instr.advance(25.0)
    for k in me.pending():
        me.run(k)
    instr.advance(25.0)
    return f, ok and f.done()


def run_held(case, res):
    """The user keeps finished futures and drops the executor: the executor must be collectable and its
    worker thread must exit (a done future must not reference its executor)."""
    layer = case["layer"]
    layers = layer.split(">")
    for hist in ("completed", "failed", "cancelled_in_flight", "cancelled_queued", "cancelled_between_retries", "delegate_cancelled",
                 "cancel_refused_then_completed", "poll_raised"):
        if hist == "cancelled_queued" and "throttle" not in layers:
            continue
        if hist == "cancelled_between_retries" and "retry" not in layers:
            continue
        if hist == "poll_raised" and "poll" not in layers:
            continue
        begin("vt")
        ctx = Ctx()
        try:
            # poll_raised: the poll function raises while the future is shown to it - the future fails with
            # the poll function's exception
            b, threads = build_unowned(layer, poll_mode="raise_once" if hist == "poll_raised" else "second_call")
            me = b.base
            f, ok = make_history(b, me, "completed" if hist == "poll_raised" else hist, "h")
            if hist == "poll_raised":
                ok = ok and f.exception() is not None and type(f.exception()).__name__ == "PollBoom"
                b.poll_state.clear()  # (the harness's own record of the raised exception)
            if not ok:
                res.count("history_not_reached")
                continue
            wr = weakref.ref(b.top)
            b = None
            me.forget()
            gc.collect()
            instr.advance(0.05)
            gc.collect()
            instr.advance(0.05)
            res.execs += 1
            check_common(res)
            alive = [t.vf_role for t in threads if t.is_alive() and not t.vf_finished]
            if wr() is not None:
                res.violation("executor-retained-by-done-future/%s" % hist,
                              "%s history=%s: the user holds only the finished future, yet the executor is not collected: held by %s"
                              % (layer, hist, referrer_summary(wr())))
            elif alive:
                res.violation("thread-leak/dropped/%s" % layer, "%s history=%s: %s alive although the executor was collected" % (layer, hist, alive))
            res.key("held", layer, hist)
            res.count("thread_liveness_samples", len(threads))
            del f
        finally:
            end(ctx)


class RetSweepScenario(object):
    """cancel() placed inside the path that moves a future on (delegate completion -> registration /
    re-queue / hand-over): afterwards nothing of it may be retained."""

    def __init__(self, case):
        self.case = case

    def setup(self):
        ctx = Ctx()
        b, threads = build_unowned(self.case["layer"])
        ctx.hold = {"b": b}
        ctx.me = b.base
        ctx.threads = threads
        res_obj, arg = Obj("result"), Obj("arg")
        job = Job("t", res_obj)
        ctx.wr = {"callable": weakref.ref(job), "argument": weakref.ref(arg), "result": weakref.ref(res_obj)}
        ctx.hold["f"] = b.top.submit(job, arg)
        ctx.wr["future"] = weakref.ref(ctx.hold["f"])
        if self.case["vop"] != "cancel":
            ctx.hold["f2"] = b.top.submit(Job("other", 0), 0)
        # (vop cancel: nothing else goes on in this executor afterwards - no other completion that would make a
        # worker thread look at its bookkeeping again)
        instr.advance(0.05)
        return ctx

    def victim_role(self, ctx):
        return "V"

    def start_victim(self, ctx):
        def act():
            if self.case["vop"] == "cancel":
                # the user's cancel() is the suspended side; the worker threads run meanwhile
                ctx.hold["f"].cancel()
                return
            p = ctx.me.pending()
            if p:
                if self.case["vop"] == "complete":
                    ctx.me.run(p[0])
                else:
                    ctx.me.fail(p[0], UserErrorA("x"))
        return ctx.actor("V", act).go()

    def intervene(self, ctx):
        if self.case["vop"] == "cancel":
            try:
                instr.wait_for(instr.quiescent_but_me, timeout=5.0)
            except Inconclusive:
                pass
            return
        f = ctx.hold.get("f")
        if f is not None:
            f.cancel()

    def finish(self, ctx):
        for _ in range(5):
            instr.advance(25.0)
            for k in ctx.me.pending():
                ctx.me.run(k)
        f = ctx.hold.get("f")
        ctx.done = f is not None and f.done()
        # the user drops the futures, the delegate forgets its work; the executor lives on
        ctx.hold.pop("f", None)
        ctx.hold.pop("f2", None)
        f = None
        ctx.me.forget()
        gc.collect()
        instr.advance(0.05)
        gc.collect()

    def oracle(self, ctx, res, info):
        label = "%s placement=%s" % (self.case["name"], info.get("site"))
        if not ctx.done:
            res.count("foreign.future_still_pending")
            return
        for what, r in ctx.wr.items():
            o = r()
            if o is not None:
                res.violation("retained/after-cancel-race/%s/%s" % (self.case["layer"], what),
                              "%s: %s still referenced after the future was done and dropped; held by %s" % (label, what, referrer_summary(o)))
                del o
        if info.get("hit"):
            res.key("retsweep", self.case["name"], info.get("site"))
        try:
            ctx.hold["b"].top.shutdown(False)
        except Exception:
            pass
        ctx.hold.clear()


class RegistryScenario(object):
    """Invariant at a hook: every event an executor obtained from the library's shutdown-aware registry is in that
    registry (the exit hook sets exactly those).  One executor is being constructed (suspended at instruction
    boundaries) while another thread drops the last reference to an unrelated event, which prunes the registry."""

    def __init__(self, case):
        self.case = case

    def setup(self):
        ctx = Ctx()
        ctx.evmod = sys.modules[instr.ME.__name__ + "._impl.event"]
        ctx.spare = [ctx.evmod.get_event() for _ in range(2)]
        ctx.me = ManualExecutor("me")
        ctx.own(ctx.me)
        ctx.ex = None
        return ctx

    def victim_role(self, ctx):
        return "V"

    def start_victim(self, ctx):
        ME = instr.ME
        t = self.case["layer"]

        def build():
            if t == "retry":
                ctx.ex = ME.Executors.with_retry(ctx.me)
            elif t == "timeout":
                ctx.ex = ME.Executors.with_timeout(ctx.me, 500.0)
            elif t == "poll":
                ctx.ex = ME.Executors.with_poll(ctx.me, lambda ds: None, None, 20.0)
            else:
                ctx.ex = ME.Executors.with_throttle(ctx.me, 2)
            ctx.own(ctx.ex)
        return ctx.actor("V", build).go()

    def intervene(self, ctx):
        # the last reference to an unrelated event goes away: its weakref callback prunes the registry
        ctx.spare.pop()

    def finish(self, ctx):
        instr.settle()

    def oracle(self, ctx, res, info):
        label = "%s placement=%s" % (self.case["name"], info.get("site"))
        if ctx.ex is None:
            res.inconclusive.append("%s: executor was not constructed" % label)
            return
        handler = ctx.evmod.GLOBAL_HANDLER
        registered = set(id(r()) for r in handler.events if r() is not None)
        evs = [(k, v) for k, v in vars(ctx.ex).items() if isinstance(v, (instr.VEvent, instr._RealEvent))]
        if not evs:
            res.inconclusive.append("%s: no event attribute found on %s" % (label, type(ctx.ex).__name__))
        for k, v in evs:
            if id(v) not in registered:
                res.violation("exit-registry/event-not-registered/%s" % self.case["layer"],
                              "%s: %s.%s was handed out by get_event() but is not in the registry the exit hook walks: the worker "
                              "thread would not be woken at interpreter exit" % (label, type(ctx.ex).__name__, k))
        for sp in ctx.spare:
            if id(sp) not in registered:
                res.violation("exit-registry/event-not-registered/other", "%s: an unrelated live event fell out of the registry" % label)
        res.count("registry_invariant_checks", len(evs))
        if info.get("hit"):
            res.key("registry", self.case["layer"], info.get("site"))


def run_retcomb(case, res):
    """A plain future that the user keeps for long (a session, a cached value) is combined, while still pending, with
    short-lived futures again and again; then everything finishes and the outputs and results are dropped while the
    long-lived input is kept: nothing of them stays reachable from it."""
    F = instr.ME.futures
    comb = case["comb"]
    begin("vt")
    ctx = Ctx()
    try:
        import concurrent.futures as cf
        session = cf.Future()
        wr = []
        others = []
        for i in range(5):
            other = cf.Future()
            payload = Obj("payload%d" % i)
            fn = None
            if comb == "f_zip":
                out = F.f_zip(session, other)
            elif comb == "f_sequence":
                out = F.f_sequence([other, session])
            elif comb == "f_traverse":
                out = F.f_traverse(lambda x: x, [session, other])
            elif comb == "f_and":
                out = F.f_and(other, session)
            elif comb == "f_or":
                out = F.f_or(session, other)
            elif comb == "f_apply":
                fn = Named("fn%d" % i, lambda a, b=None: (a, b))
                out = F.f_apply(F.f_return(fn), session, b=other)
            else:
                fn = Named("fn%d" % i, lambda v, _p=payload: _p)
                out = F.f_map(session, fn)
            others.append((other, payload if comb != "f_or" else 0))
            wr.append(("output#%d" % i, weakref.ref(out)))
            wr.append(("payload#%d" % i, weakref.ref(payload)))
            if fn is not None:
                wr.append(("function#%d" % i, weakref.ref(fn)))
            del out, other, payload, fn
        if case.get("order") == "session_first":
            session.set_result(Obj("session value"))
        for other, value in others:
            if not other.done():   # (f_or cancels the losers)
                other.set_result(value)
        if case.get("order") != "session_first":
            session.set_result(Obj("session value"))
        del others, other, value
        gc.collect()
        instr.advance(0.05)
        gc.collect()
        res.execs += 1
        check_common(res)
        if not session.done():
            res.inconclusive("retcomb: the long-lived input did not finish")
        for what, r in wr:
            o = r()
            if o is not None:
                res.violation("retained/combinator/%s/%s" % (comb, what.split("#")[0]),
                              "%s over a long-lived plain future: everything finished, the user kept only that input, and %s is still "
                              "referenced; held by %s" % (comb, what, referrer_summary(o)))
                del o
                break
        res.key("retcomb", comb, case.get("order"))
        res.count("weakref_samples", len(wr))
    finally:
        end(ctx)


def run_keepalive(case, res):
    layer = case["layer"]
    for how in ("value", "exc"):
        begin("vt")
        ctx = Ctx()
        try:
            b, threads = build_unowned(layer)
            me = b.base
            f = b.top.submit(Job("k", 42), 0)
            instr.advance(0.05)
            wr = weakref.ref(b.top)
            b = None
            gc.collect()
            instr.advance(0.05)
            for k in me.pending():
                if how == "value":
                    me.run(k)
                else:
                    me.fail(k, UserErrorA("final"))
            for _ in range(4):
                instr.advance(25.0)
                for k in me.pending():
                    me.run(k)
            res.execs += 1
            check_common(res)
            if not f.done():
                res.violation("pending-future-abandoned/%s" % layer,
                              "%s: future still pending after its delegate work was completed (%s) - the executor was dropped by the user while it was pending (executor %s)"
                              % (layer, how, "alive" if wr() is not None else "collected"))
            res.key("keepalive", layer, how)
            del f
            me.forget()
            gc.collect()
            instr.advance(130.0)
            gc.collect()
            instr.advance(1.0)
            alive = [t.vf_role for t in threads if t.is_alive() and not t.vf_finished]
            if alive:
                res.violation("thread-leak/dropped/%s" % layer, "%s keepalive: %s alive after everything was dropped" % (layer, alive))
        finally:
            end(ctx)


# --------------------------------------------------------------------------
# (b) exit.child
# --------------------------------------------------------------------------
def child(args, timeout=40):
    env = dict(os.environ)
    env["PYTHONPATH"] = ROOT
    try:
        p = subprocess.run([sys.executable, "-B", "-m", "vf.exitchild"] + [str(a) for a in args], cwd=ROOT, env=env,
                           capture_output=True, text=True, timeout=timeout)
    except subprocess.TimeoutExpired:
        return None, "", "TIMEOUT"
    return p.returncode, p.stdout, p.stderr


def run_exit(case, res):
    rng = random.Random("c12x/%s/%s" % (case["seed"], case["name"]))
    kind, state, mode = case["layer"], case["state"], case["mode"]
    rc, out, err = child([kind, state, "trace-" + mode])
    n = 0
    for line in out.splitlines():
        try:
            d = json.loads(line)
            n = d.get("trace_len", d.get("hook_trace_len", n)) or n
        except ValueError:
            pass
    judge_child(res, case, "dry", rc, out, err)
    ks = list(range(n))
    if len(ks) > case["n"]:
        ks = sorted(rng.sample(ks, case["n"]))
    for k in ks:
        rc, out, err = child([kind, state, mode, k])
        judge_child(res, case, k, rc, out, err)
    rc, out, err = child([kind, state, "plain"])
    judge_child(res, case, "plain", rc, out, err)


def judge_child(res, case, k, rc, out, err):
    res.execs += 1
    label = "%s k=%s" % (case["name"], k)
    site = None
    for line in out.splitlines():
        try:
            site = json.loads(line).get("site") or site
        except ValueError:
            pass
    if err == "TIMEOUT":
        res.violation("exit/hang/%s" % case["layer"], "%s: child interpreter did not exit within 40 s" % label)
        return
    bad = [l for l in err.splitlines() if l.strip()]
    if rc == 3 or any(l.startswith("LEAK") for l in bad):
        res.violation("exit/thread-alive/%s" % case["layer"], "%s: worker thread still alive after the exit hook ran: %s (placement %s)" % (label, bad[:2], site))
    elif rc != 0:
        res.violation("exit/code-%s/%s" % (rc, case["layer"]), "%s: child exit code %s, stderr %s" % (label, rc, bad[-3:]))
    elif bad:
        res.violation("exit/stderr/%s" % case["layer"], "%s: child printed on stderr at exit: %s" % (label, bad[-3:]))
    res.key("exit", case["layer"], case["state"], case["mode"], k)
    res.count("child_interpreters")
    res.sample({"child": [case["layer"], case["state"], case["mode"], k], "exit_code": rc, "stderr_lines": len(bad), "placement": site}, limit=1)


def run_case(case, res):
    k = case["kind"]
    if k == "drop":
        rng = random.Random("c12/%s/%s" % (case["seed"], case["name"]))
        Sweep(DropScenario(case), res, "vt", case["name"]).run(case["cap"], rng, per_site=2)
    elif k == "sdthread":
        run_sdthread(case, res)
    elif k == "retain":
        run_retain(case, res)
    elif k == "keepalive":
        run_keepalive(case, res)
    elif k == "held":
        run_held(case, res)
    elif k == "retsweep":
        rng = random.Random("c12r/%s/%s" % (case["seed"], case["name"]))
        Sweep(RetSweepScenario(case), res, "vt", case["name"]).run(case["cap"], rng, per_site=2)
    elif k == "retcomb":
        run_retcomb(case, res)
    elif k == "registry":
        rng = random.Random("c12g/%s/%s" % (case["seed"], case["name"]))
        Sweep(RegistryScenario(case), res, "vt", case["name"], gran="instr").run(case["cap"], rng, per_site=2)
    else:
        run_exit(case, res)
