"""C07 - throttle: never more than count in flight, FIFO hand-over, no idle capacity.

ThrottleExecutor over a manual delegate in virtual time.  An online model is
evaluated over the boundary log:

* over-admission: at each arrival at the delegate, (handed over - done) + 1 <= limit,
  limit = static count or the largest value the count callable returned since the
  hand-over thread's own most recent call (a stale-but-legitimate read cannot alarm)
* FIFO: arrivals at the delegate respect the real-time order of submit() intervals
* no idle capacity: at every quiescent point D=0.3 virtual s after a harness action
  (< 2 s / 30 s fallback timers) in_flight == min(count, in_flight + queued)
* blocking mode: submit() returns for every count; parks only while the queue holds
  count entries and is released within D of the queue dropping below count
"""
import random
import itertools

from .. import instr, harness
from ..harness import (Sweep, Ctx, ManualExecutor, call, check_common, begin, end, drive, Recorded, UserErrorA,
                       wait_done_or_blocked, hang_report)
from ..instr import LOG, TR, LM, Inconclusive

TITLE = "throttle"
RULE = ("one execution = one ThrottleExecutor (count kind x blocking mode) over a manual delegate driven by a seeded program "
        "of submits / completions / cancels / count changes from 1-4 submitters, or one placement of a second action "
        "inside the hand-over thread's (or a completion callback's) path; the model is checked at every delegate arrival "
        "and at every quiescent point; distinct & non-trivial = (configuration, program signature or placement site) with "
        "at least one hand-over while the queue or the limit was binding")
REQUIRED = ["line_events", "lock_acquisitions", "vevent_waits", "timers_fired"]
D = 0.3
INF = float("inf")


def cases(tier, seed):
    out = []
    counts = [0, 1, 2, 5, None, "step", "raise"]
    n = 6 if tier == "quick" else 600
    for c in counts:
        for block in (False, True):
            for i in range(n):
                out.append({"name": "throttle.model/count=%s/block=%d/%d" % (c, block, i), "kind": "model", "count": c,
                            "block": block, "idx": i, "steps": 14 if tier == "quick" else 30})
    for c in (1, 2):
        for nq in (3, 4, 6):
            for ci in range(nq):
                out.append({"name": "throttle.fifo/count=%d/queued=%d/cancel=%d" % (c, nq, ci), "kind": "fifo", "count": c, "nq": nq, "ci": ci})
    cap = 16 if tier == "quick" else None
    for c in (1, 2):
        for block in (False, True):
            for trig in ("complete", "submit", "cancel_inflight"):
                out.append({"name": "throttle.sweep/worker/count=%s/block=%d/%s" % (c, block, trig), "kind": "sweep",
                            "victim": "worker", "count": c, "block": block, "trigger": trig, "cap": cap})
            for vop in ("complete", "submit", "cancel_queued"):
                out.append({"name": "throttle.sweep/client/count=%s/block=%d/%s" % (c, block, vop), "kind": "sweep",
                            "victim": "client", "count": c, "block": block, "trigger": vop, "cap": cap})
    # blocking mode with a count callable that is raised while a submit() is blocked
    for start, raised in ((1, 3), (1, 2), (2, 5)):
        for mover in ("complete", "cancel_queued"):
            out.append({"name": "throttle.block-dynamic/%d-to-%d/%s" % (start, raised, mover), "kind": "blockdyn", "start": start,
                        "raised": raised, "mover": mover})
    # suspension points at instruction boundaries (the in-flight counter's read-modify-write, queue pops)
    for c in (2,):
        for victim, trig in (("client", "complete"), ("worker", "complete"), ("client", "submit"), ("worker", "submit")):
            for queued in (0, 1):
                out.append({"name": "throttle.sweep-instr/%s/count=%s/queued=%d/%s" % (victim, c, queued, trig), "kind": "sweep", "victim": victim,
                            "count": c, "block": False, "trigger": trig, "cap": None, "gran": "instr", "queued": queued})
    return out


class TWorld(object):
    def __init__(self, ctx, count, block):
        ME = instr.ME
        self.ctx = ctx
        self.count_kind = count
        self.block = block
        self.me = ManualExecutor("me")
        ctx.own(self.me)
        self.dynamic = count in ("step", "raise")
        self.cur = 2 if self.dynamic else count
        self.raising = False
        self.count_fn = None
        if self.dynamic:
            def behave(idx):
                if self.raising:
                    raise UserErrorA("count")
                return self.cur
            self.count_fn = Recorded("count", behave)
            arg = self.count_fn
        else:
            arg = count
        self.ex = ctx.own(ME.Executors.with_throttle(self.me, arg, block=block))
        self.worker_role = [t for t in instr.TRACKED if t.vf_started][-1].vf_role
        self.subs = []  # dicts: id, fut, state
        self.blocked = []  # (actor, sub)
        self.last_change_t = None
        self.viol = []

    # ---- client ops
    def new_sub(self):
        s = {"id": len(self.subs), "fut": None, "cancelled": False, "error": None}
        self.subs.append(s)
        return s

    def do_submit(self, s):
        fn = Recorded("job%d" % s["id"], lambda idx: None)
        try:
            s["fut"] = call("submit", self.ex.submit, fn, _tag=s["id"])
        except RuntimeError as e:
            s["error"] = e
            if "cannot schedule" not in str(e):
                raise
        except Exception as e:
            s["error"] = e
            raise

    def handed(self):
        """submission ids in arrival order at the delegate"""
        return [int(it[1].vf_id[3:]) for it in self.me.items]

    def inflight_items(self):
        return self.me.pending()

    def queued(self):
        h = set(self.handed())
        return [s for s in self.subs if s["fut"] is not None and s["id"] not in h and not s["fut"].done()]

    def limit_now(self):
        if self.dynamic:
            return self.cur
        return self.count_kind

    # ---- oracle pieces
    def check_arrivals(self, res, label):
        """over-admission + FIFO from the log"""
        evs = LOG.events
        # count-callable history
        calls = []  # (start_seq, end_seq, effective value, role)
        eff = None
        open_calls = {}
        for e in evs:
            s, vt, role, kind, d = e
            if kind == "fn.start" and d.get("fn") == "count":
                open_calls[(role, d["idx"])] = s
            elif kind == "fn.end" and d.get("fn") == "count":
                st = open_calls.pop((role, d["idx"]), s)
                if "exc" not in d:
                    eff = self.count_fn.calls[d["idx"]].get("value")
                    calls.append((st, s, eff, role, True))
                else:
                    calls.append((st, s, "prev", role, False))
        # resolve 'prev'
        resolved = []
        last = None
        for (st, en, v, role, ok) in calls:
            if not ok:
                v = last
            last = v
            resolved.append((st, en, v, role))
        done_at = {}
        for e in evs:
            s, vt, role, kind, d = e
            if kind in ("me.complete", "me.fail"):
                done_at.setdefault(d["idx"], s)
            elif kind == "spy.cancel":
                # cancel of a delegate future: done from here on (if it succeeds)
                tag = d.get("tag") or ""
                if tag.startswith("me#"):
                    done_at.setdefault(int(tag[3:]) + 100000, s)  # tentative, confirmed below
            elif kind == "spy.cancel.ret" and d.get("value"):
                tag = d.get("tag") or ""
                k = int(tag[3:])
                if k + 100000 in done_at:
                    done_at.setdefault(k, done_at[k + 100000])
        arrivals = [(e[0], e[4]["idx"], e[1]) for e in evs if e[3] == "me.submit"]
        binding = False
        for (s, idx, vt) in arrivals:
            infl = sum(1 for (s2, i2, _) in arrivals if s2 < s and not (i2 in done_at and done_at[i2] < s))
            if self.dynamic:
                ended = [c for c in resolved if c[1] < s]
                wk = [c for c in ended if c[3] == self.worker_role]
                if wk:
                    since = wk[-1][0]
                    cand = [c[2] for c in ended if c[1] >= since or c is wk[-1]]
                else:
                    cand = [c[2] for c in ended]
                lim = max((INF if v is None else v) for v in cand) if cand else INF
            else:
                lim = INF if self.count_kind is None else self.count_kind
            if infl + 1 >= lim:
                binding = True
            if infl + 1 > lim:
                res.violation("over-admission/%s" % ("dynamic" if self.dynamic else "static"),
                              "%s: item %d handed to the delegate with %d already in flight, limit %s" % (label, idx, infl, lim))
        # FIFO
        order = self.handed()
        callseq = {}
        retseq = {}
        for e in evs:
            if e[3] == "call" and e[4].get("op") == "submit":
                callseq[e[4]["tag"]] = e[0]
            elif e[3] == "ret" and e[4].get("op") == "submit":
                retseq[e[4]["tag"]] = e[0]
        for i, a in enumerate(order):
            for b in order[i + 1:]:
                # b arrived after a: violation if b's submit returned before a's submit was called
                if b in retseq and a in callseq and retseq[b] < callseq[a]:
                    res.violation("fifo", "%s: submission %d reached the delegate before %d although it was submitted later"
                                  % (label, a, b), order=order)
        return binding

    def check_quiescent(self, res, label, after_change=False):
        infl = len(self.inflight_items())
        q = len(self.queued())
        lim = self.limit_now()
        if self.dynamic and self.raising:
            return
        want = infl + q if lim is None else min(max(lim, infl), infl + q)
        if lim is not None and infl > lim:
            want = infl  # limit was lowered below what is already in flight: nothing to hand over
        if infl != want:
            res.violation("idle-capacity/%s%s" % ("dynamic" if self.dynamic else "static", "/block" if self.block else ""),
                          "%s: at quiescent point t=%.3f in flight=%d queued=%d limit=%s: capacity idle while work is queued"
                          % (label, instr.vnow() - 1000, infl, q, lim))
        res.count("quiescent_checks")


def run_model(case, res):
    rng = random.Random("c07/%s/%s" % (case["seed"], case["name"]))
    begin("vt")
    ctx = Ctx()
    label = case["name"].split("/", 1)[1]
    try:
        try:
            w = TWorld(ctx, case["count"], case["block"])
        except Exception as e:
            res.execs += 1
            res.violation("unexpected-exception/constructor/%s" % type(e).__name__, "constructor raised %r for %s" % (e, label))
            return
        instr.advance(D)
        nsubmitters = rng.randint(1, 4)
        sig = []
        for step in range(case["steps"]):
            ops = ["submit", "submit", "submit", "complete", "complete", "fail", "cancel_queued", "cancel_inflight"]
            if w.dynamic:
                ops += ["change", "change"]
            op = rng.choice(ops)
            sig.append(op[0:2])
            waited = D
            if op == "submit":
                s = w.new_sub()
                a = ctx.actor("S%d" % (s["id"] % nsubmitters), w.do_submit, s).go()
                st = wait_done_or_blocked(a, grace=2.0)
                if st == "blocked" and w.blocked:
                    # waiting for the shutdown gate held by an earlier, legitimately parked submit()
                    w.blocked.append((a, s))
                    res.count("submits_queued_behind_blocked_submit")
                elif st == "parked":
                    # blocked in submit(): legitimate only in blocking mode with a full queue
                    lim = w.limit_now()
                    q = len(w.queued())
                    if not w.block:
                        res.violation("submit-blocked/non-blocking", "%s: submit() parked in non-blocking mode" % label)
                    elif lim is None or q < lim:
                        res.violation("submit-blocked/queue-not-full", "%s: submit() parked with %d queued, limit %s" % (label, q, lim))
                    s["limit_when_parked"] = lim
                    w.blocked.append((a, s))
                    res.count("blocking_submits_parked")
                elif st == "done":
                    if a.error is not None and not (isinstance(a.error, RuntimeError) and "cannot schedule" in str(a.error)):
                        res.violation("unexpected-exception/submit/%s" % type(a.error).__name__,
                                      "%s: submit() raised %r" % (label, a.error), tb=getattr(a, "tb", None))
                        break
                elif st == "deadlock":
                    break
                else:
                    raise Inconclusive("submit neither returned nor parked: %s %s" % (st, instr.describe_threads()))
            elif op in ("complete", "fail"):
                p = w.inflight_items()
                if p:
                    k = rng.choice(p)
                    (w.me.complete if op == "complete" else w.me.fail)(k, 1 if op == "complete" else UserErrorA("x"))
            elif op == "cancel_queued":
                q = w.queued()
                if q:
                    s = rng.choice(q)
                    call("cancel", s["fut"].cancel, _tag=s["id"])
            elif op == "cancel_inflight":
                p = w.inflight_items()
                if p:
                    k = rng.choice(p)
                    sid = w.handed()[k]
                    call("cancel", w.subs[sid]["fut"].cancel, _tag=sid)
            elif op == "change":
                if case["count"] == "raise" and rng.random() < 0.4:
                    w.raising = not w.raising
                else:
                    w.cur = rng.choice([0, 1, 2, 3, None])
                    w.raising = False
                waited = 61.0  # honoured by the periodic re-check at the latest
            instr.advance(waited)
            if LM.deadlocks:
                break
            # blocked submitters must be released once the queue has room
            still = []
            for (a, s) in w.blocked:
                if a.finished:
                    if a.error is not None:
                        res.violation("unexpected-exception/submit/%s" % type(a.error).__name__,
                                      "%s: blocked submit() raised %r" % (label, a.error))
                    continue
                lim = w.limit_now()
                q = len(w.queued())
                if lim is None or q < lim:
                    changed = w.dynamic and s.get("limit_when_parked", lim) != lim
                    res.violation("blocking-submit/stalled" + ("/count-changed" if changed else ""),
                                  "%s: submit() still parked %.1f virtual s after the queue dropped below count (queued=%d, limit=%s%s)"
                                  % (label, waited, q, lim, ", limit was %s when it parked" % (s.get("limit_when_parked"),) if changed else ""))
                    # let the 30 s fallback release it so that the run can go on
                    instr.advance(31.0)
                    if not a.finished:
                        still.append((a, s))
                else:
                    still.append((a, s))
            w.blocked = still
            if not (w.dynamic and op != "change" and w.last_change_t is None and False):
                w.check_quiescent(res, label)
        res.execs += 1
        check_common(res)
        if not LM.deadlocks:
            binding = w.check_arrivals(res, label)
            if binding or w.blocked or res.counters.get("blocking_submits_parked"):
                res.key(label.rsplit("/", 1)[0], "".join(sig))
            res.count("delegate_arrivals", len(w.me.items))
            res.sample({"config": label, "program": "".join(sig), "arrival_order": w.handed(),
                        "count_calls": len(w.count_fn.calls) if w.count_fn else None}, limit=1)
        # release whoever is still blocked so that the case can end
        for i in w.me.pending():
            w.me.complete(i, 0)
        instr.advance(35.0)
    finally:
        end(ctx)


# --------------------------------------------------------------------------
class TScenario(object):
    def __init__(self, case, second):
        self.case = case
        self.second = second

    def setup(self):
        ctx = Ctx()
        w = TWorld(ctx, self.case["count"], False if self.case["trigger"] == "x" else self.case["block"])
        ctx.w = w
        # fill: count in flight + 1 queued (blocking mode: a full queue of count entries)
        n = self.case["count"] * 2 if self.case["block"] else self.case["count"] + self.case.get("queued", 1)
        for i in range(n):
            s = w.new_sub()
            w.do_submit(s)
            instr.advance(0.01)
        instr.advance(D)
        return ctx

    def victim_role(self, ctx):
        return ctx.w.worker_role if self.case["victim"] == "worker" else "V"

    def produce(self, ctx, what):
        w = ctx.w
        if what == "submit":
            s = w.new_sub()
            w.do_submit(s)
        elif what == "complete":
            p = w.inflight_items()
            if p:
                w.me.complete(p[0], 1)
        elif what == "cancel_inflight":
            p = w.inflight_items()
            if p:
                sid = w.handed()[p[0]]
                call("cancel", w.subs[sid]["fut"].cancel, _tag=sid)
        elif what == "cancel_queued":
            q = w.queued()
            if q:
                call("cancel", q[0]["fut"].cancel, _tag=q[0]["id"])
        elif what == "timer":
            from .c04 import fire_next_timer
            fire_next_timer()
        elif what == "complete+submit":
            # capacity is freed and handed over, then another submitter comes in
            for k in list(ctx.w.inflight_items()):
                ctx.w.me.complete(k, 1)
            try:
                instr.wait_for(instr.quiescent_but_me, timeout=2.0)
            except Inconclusive:
                pass
            self.produce(ctx, "submit")

    def start_victim(self, ctx):
        role = "T" if self.case["victim"] == "worker" else "V"
        return ctx.actor(role, self.produce, ctx, self.case["trigger"]).go()

    def intervene(self, ctx):
        self.produce(ctx, self.second)

    use_time = False

    def on_quiescent_unfinished(self, ctx, acts, res, info):
        """Everything is quiescent but a submit() has not returned: legitimate
        only in blocking mode with a full queue; then freeing capacity must
        release it within D."""
        w = ctx.w
        label = "%s|%s@%s" % (self.case["name"].split("/", 1)[1], self.second, info.get("site"))
        for _ in range(8):
            if all(a.finished for a in acts):
                return True
            lim, q = w.limit_now(), len(w.queued())
            if not w.block:
                res.violation("submit-blocked/non-blocking", "%s: submit() parked in non-blocking mode" % label)
                return False
            if lim is None or q < lim:
                res.violation("blocking-submit/stalled",
                              "%s: submit() parked although only %d queued (limit %s); capacity was freed at most %.1f virtual s ago"
                              % (label, q, lim, D))
                instr.advance(31.0)
                continue
            res.count("blocking_submits_parked")
            p = w.inflight_items()
            if not p:
                return False
            w.me.complete(p[0], 1)
            instr.advance(D)
        return all(a.finished for a in acts)

    def hang_key(self, ctx, stuck):
        return "throttle/%s|%s" % (self.case["trigger"], self.second)

    def finish(self, ctx):
        instr.advance(D)

    def oracle(self, ctx, res, info):
        w = ctx.w
        label = "%s|%s" % (self.case["name"].split("/", 1)[1], self.second)
        for a in (info.get("victim"), info.get("iact")):
            if a is not None and a.error is not None and not (isinstance(a.error, RuntimeError) and "cannot schedule" in str(a.error)):
                res.violation("unexpected-exception/%s" % type(a.error).__name__, "%s: %r" % (label, a.error), tb=getattr(a, "tb", None))
        if res.counters.get("drive.timer_needed"):
            pass
        w.check_quiescent(res, label + "@%s" % (info.get("site"),))
        binding = w.check_arrivals(res, label)
        # drain and re-check: everything submitted must get through
        for _ in range(8):
            p = w.inflight_items()
            if not p and not w.queued():
                break
            for k in p:
                w.me.complete(k, 1)
            instr.advance(D)
            w.check_quiescent(res, label + "/drain@%s" % (info.get("site"),))
        # a damaged in-flight count shows only under new load: fill up again (non-blocking mode), then drain
        if not w.block and not LM.deadlocks:
            lim = w.limit_now()
            for _ in range((lim if isinstance(lim, int) else 2) + 2):
                w.do_submit(w.new_sub())
            instr.advance(D)
            w.check_quiescent(res, label + "/refill@%s" % (info.get("site"),))
            for _ in range(10):
                p = w.inflight_items()
                if not p and not w.queued():
                    break
                for k in p:
                    w.me.complete(k, 1)
                instr.advance(D)
                w.check_quiescent(res, label + "/refill-drain@%s" % (info.get("site"),))
        w.check_arrivals(res, label)
        if info.get("hit"):
            res.key(label, info.get("site"))
        res.sample({"config": label, "placement": info.get("site"), "arrival_order": w.handed()}, limit=1)


def run_sweep(case, res):
    rng = random.Random("c07/%s/%s" % (case["seed"], case["name"]))
    seconds = ["submit", "complete", "cancel_queued", "cancel_inflight"]
    if case["victim"] == "client":
        seconds.append("timer")
        if case["block"] and case["trigger"] == "submit":
            seconds.append("complete+submit")
    for second in seconds:
        sw = Sweep(TScenario(case, second), res, "vt", case["name"], gran=case.get("gran"))
        # the two-submitter race needs a placement between clear/check and wait: sweep it completely
        sw.run(None if second == "complete+submit" else case["cap"], rng, per_site=2)
        if harness.need_recycle():
            return


def run_blockdyn(case, res):
    """count callable = start; `start` in flight, `start` queued (the queue is full), one more submit() blocks.  The
    callable's answer is raised; then the queue moves (a completion / a cancel of a queued future): the blocked
    submit() returns - it blocks only while the queue holds `count` entries."""
    begin("vt")
    ctx = Ctx()
    try:
        w = TWorld(ctx, "step", True)
        w.cur = case["start"]
        instr.advance(D)
        for i in range(2 * case["start"]):
            w.do_submit(w.new_sub())
            instr.advance(0.01)
        instr.advance(D)
        sb = w.new_sub()
        a = ctx.actor("B", w.do_submit, sb).go()
        st = harness.wait_done_or_blocked(a)
        if a.finished:
            res.inconclusive.append("%s: the extra submit() did not block (queued %d)" % (case["name"], len(w.queued())))
            return
        w.cur = case["raised"]
        if case["mover"] == "complete":
            p = w.inflight_items()
            w.me.complete(p[0], 1)
        else:
            q = w.queued()
            call("cancel", q[-1]["fut"].cancel, _tag=q[-1]["id"])
        instr.advance(D)
        res.execs += 1
        check_common(res)
        if not a.finished:
            res.violation("blocking-submit/stalled", "%s: the count callable now answers %d, the queue holds %d entries, submit() is still "
                          "blocked %.1f virtual s after the queue moved" % (case["name"], case["raised"], len(w.queued()), D))
            instr.advance(31.0)
        drive([a], use_time=True)
        for _ in range(12):
            p = w.inflight_items()
            if not p and not w.queued():
                break
            for k in p:
                w.me.complete(k, 1)
            instr.advance(D)
        w.check_arrivals(res, case["name"])
        res.key("blockdyn", case["start"], case["raised"], case["mover"])
    finally:
        end(ctx)


def run_fifo(case, res):
    """count in flight, nq queued; cancel the ci-th queued one; complete everything one by one."""
    begin("vt")
    ctx = Ctx()
    try:
        w = TWorld(ctx, case["count"], False)
        n = case["count"] + case["nq"]
        for i in range(n):
            w.do_submit(w.new_sub())
        instr.advance(D)
        q = w.queued()
        victim = q[case["ci"]]
        call("cancel", victim["fut"].cancel, _tag=victim["id"])
        instr.advance(D)
        for _ in range(n + 2):
            p = w.inflight_items()
            if not p:
                break
            w.me.complete(p[0], 1)
            instr.advance(D)
            w.check_quiescent(res, case["name"])
        res.execs += 1
        check_common(res)
        w.check_arrivals(res, case["name"])
        want = [i for i in range(n) if i != victim["id"]]
        if w.handed() != want:
            res.violation("fifo", "%s: hand-over order %s, expected %s (queued job %d was cancelled)" % (case["name"], w.handed(), want, victim["id"]))
        res.key("fifo", case["count"], case["nq"], case["ci"])
    finally:
        end(ctx)


def run_case(case, res):
    if case["kind"] == "blockdyn":
        return run_blockdyn(case, res)
    if case["kind"] == "fifo":
        return run_fifo(case, res)
    if case["kind"] == "model":
        run_model(case, res)
    else:
        run_sweep(case, res)
