"""C10 - cancel-on-shutdown covers every future the executor ever accepted.

Scenario ``cos.race``: CancelOnShutdownExecutor over a ManualExecutor whose
SpyFutures log every cancel().  Placement sweeps put shutdown() at every
statement boundary of submit() and vice versa; fuzzed multi-submitter runs.
"""
import random

from .. import instr, harness
from ..harness import (Sweep, Ctx, ManualExecutor, call, check_common, begin, end, Actor,
                       wait_done_or_blocked)
from ..instr import LOG, TR, LM

TITLE = "cancel-on-shutdown coverage"
RULE = ("one execution = CancelOnShutdownExecutor over a manual delegate with k earlier futures in given states, "
        "one racing pair (submit|shutdown) at one placement, or one fuzzed multi-submitter program; "
        "non-trivial & distinct = (scenario, earlier-future states, placement site or schedule signature) in which "
        "a submit() call overlapped shutdown() or a not-done future existed when shutdown() returned")
REQUIRED = ["line_events", "lock_acquisitions"]
ASSUMPTIONS = ["the wrapped executor is the harness ManualExecutor (never completes work on its own)"]


def cases(tier, seed):
    out = []
    states = ["", "p", "pd", "prd", "ppp"]
    for st in states:
        for direction in ("submit|shutdown", "shutdown|submit", "shutdown|complete", "shutdown|shutdown", "shutdown|start"):
            for resub in (False, True):
                out.append({"name": "cos.race/%s/%s/resub=%s" % (direction, st or "-", int(resub)), "kind": "sweep",
                            "dir": direction, "earlier": st, "resub": resub,
                            "cap": 40 if tier == "quick" else None})
    for st in ("p", "pr", "prd", "ppp"):
        for direction in ("submit|shutdown", "shutdown|submit", "shutdown|complete"):
            out.append({"name": "cos.race-cancel_futures/%s/%s" % (direction, st), "kind": "sweep", "dir": direction, "earlier": st,
                        "resub": False, "cap": None, "cancel_futures": True})
    for st in ("ppp", "prd", "pppppp"):
        for direction in ("shutdown|complete", "shutdown|submit", "submit|shutdown"):
            out.append({"name": "cos.race-instr/%s/%s" % (direction, st), "kind": "sweep", "dir": direction, "earlier": st, "resub": False,
                        "cap": None, "gran": "instr"})
    for inner in ("map", "retry", "throttle", "poll", "timeout", "flat_map"):
        for direction in ("submit|shutdown", "shutdown|submit"):
            out.append({"name": "cos.layered/%s/%s" % (inner, direction), "kind": "layered", "inner": inner, "dir": direction,
                        "earlier": "pp", "resub": False, "cap": 30 if tier == "quick" else None})
    nf = 12 if tier == "quick" else 2000
    for i in range(nf):
        out.append({"name": "cos.fuzz/%d" % i, "kind": "fuzz", "n": 25 if tier == "quick" else 60, "idx": i})
    # the very first use of a new executor races with its shutdown (state created on first use)
    for i in range(48 if tier == "quick" else 600):
        out.append({"name": "cos.fuzz-fresh/%d" % i, "kind": "fuzz", "n": 150, "idx": i, "fresh": True})
    return out


class CosScenario(object):
    def __init__(self, case):
        self.case = case

    def setup(self):
        me_mod = instr.ME
        ctx = Ctx()
        me = ManualExecutor("me")
        ex = ctx.own(me_mod.Executors.with_cancel_on_shutdown(me))
        ctx.me, ctx.ex = me, ex
        ctx.returned = []  # (tag, future)
        ctx.submit_results = []
        # earlier futures: p = pending, r = running, d = done
        for ch in self.case["earlier"]:
            f = ex.submit(lambda: None)
            idx = len(me.items) - 1
            if ch == "r":
                me.mark_running(idx)
            elif ch == "d":
                me.complete(idx, 1)
            ctx.returned.append(f)
            if self.case["resub"]:
                def cb(_f, ctx=ctx):
                    self.do_submit(ctx, "cb")
                f.add_done_callback(cb)
        return ctx

    def do_submit(self, ctx, who):
        try:
            f = call("submit", ctx.ex.submit, lambda: None, _tag=who)
        except RuntimeError as e:
            ctx.submit_results.append((who, "raised", str(e)))
            return None
        ctx.returned.append(f)
        ctx.submit_results.append((who, "future", f))
        return f

    def do_shutdown(self, ctx):
        if self.case.get("cancel_futures"):
            call("shutdown", ctx.ex.shutdown, True, cancel_futures=True)
        else:
            call("shutdown", ctx.ex.shutdown, True)
        # state of every future at the moment shutdown returned
        ctx.snapshot = [(f, f.done()) for f in list(ctx.returned)]
        ctx.shutdown_ret_seq = LOG.add("shutdown.returned")

    def victim_role(self, ctx):
        return "V"

    def start_victim(self, ctx):
        if self.case["dir"].startswith("submit"):
            return ctx.actor("V", self.do_submit, ctx, "racer").go()
        return ctx.actor("V", self.do_shutdown, ctx).go()

    def intervene(self, ctx):
        if self.case["dir"].startswith("submit"):
            self.do_shutdown(ctx)
        elif self.case["dir"].endswith("|shutdown"):
            # a second shutdown() while the first is under way
            call("shutdown", ctx.ex.shutdown, True, _tag="second")
        elif self.case["dir"].endswith("|start"):
            # the delegate's workers pick up every queued future while shutdown() is under way
            for i in ctx.me.pending():
                try:
                    ctx.me.mark_running(i)
                except Exception:
                    pass
        elif self.case["dir"].endswith("complete"):
            # every outstanding future finishes by itself while shutdown() is under way
            for i in ctx.me.pending():
                try:
                    ctx.me.fut(i).set_result(1)
                except Exception:
                    pass
        else:
            self.do_submit(ctx, "racer")

    def finish(self, ctx):
        # shutting down again later (e.g. leaving a ``with`` block after an explicit shutdown) changes nothing
        if hasattr(ctx, "snapshot"):
            call("shutdown", ctx.ex.shutdown, True, _tag="again")
            call("shutdown", ctx.ex.shutdown, False, _tag="again")

    def oracle(self, ctx, res, info):
        for a in (info.get("victim"), info.get("iact")):
            if a is not None and a.error is not None and not isinstance(a.error, instr.DeadlockBroken):
                res.violation("shutdown-or-submit-raised/%s" % type(a.error).__name__, "%s: %s raised %r (placement %s)"
                              % (self.case["name"], a.role, a.error, info.get("site")), tb=getattr(a, "tb", None))
                if not hasattr(ctx, "snapshot"):
                    ctx.snapshot = [(f, f.done()) for f in list(ctx.returned)]
        oracle(ctx, res, self.case["name"].split("/")[1] + "/" + self.case["earlier"], info)


LIBCANCELS = {}
_patched = [False]


def patch_lib_cancel():
    """Count cancel() calls arriving at library futures (any _Future subclass).  Done at class level so
    that a cancel issued the very moment submit() returns - before the harness could touch the returned
    object - is counted too."""
    if _patched[0]:
        return
    from more_executors._impl.common import _Future
    orig = _Future.cancel

    def cancel(self):
        lst = LIBCANCELS.setdefault(id(self), [])
        s = LOG.add("lib.cancel", fut=id(self))
        r = orig(self)
        lst.append((s, 0.0, r))
        return r
    _Future.cancel = cancel
    _patched[0] = True


class LayeredScenario(CosScenario):
    """cancel_on_shutdown over another library layer: the futures it hands out are library futures."""

    def setup(self):
        from .. import stacks
        patch_lib_cancel()
        LIBCANCELS.clear()
        ctx = Ctx()
        t = self.case["inner"]
        L = {"t": t, "k": 0}
        if t == "retry":
            L.update(max_attempts=2, sleep=0.5)
        if t == "throttle":
            L.update(count=1)
        if t == "poll":
            L.update(interval=5.0, mode="never")
        if t == "timeout":
            L.update(timeout=500.0)
        b = stacks.build(ctx, {"base": "me", "layers": [L, {"t": "cos", "k": 1}]})
        ctx.me, ctx.ex = b.base, b.top
        ctx.returned = []
        ctx.submit_results = []
        ctx.n = 0
        for ch in self.case["earlier"]:
            self.do_submit(ctx, "early")
        instr.advance(0.05)
        return ctx

    def do_submit(self, ctx, who):
        try:
            f = call("submit", ctx.ex.submit, lambda: None, _tag=who)
        except RuntimeError as e:
            ctx.submit_results.append((who, "raised", str(e)))
            return None
        ctx.n += 1
        f.cancel_calls = LIBCANCELS.setdefault(id(f), [])
        f.tag = "lib#%d" % ctx.n
        ctx.returned.append(f)
        ctx.submit_results.append((who, "future", f))
        return f

    def finish(self, ctx):
        instr.advance(0.05)


def oracle(ctx, res, label, info):
    me = ctx.me
    if not hasattr(ctx, "snapshot"):
        res.inconclusive.append("shutdown never returned")
        return
    # exceptions out of the API other than the documented RuntimeError
    for a in [info.get("victim"), info.get("iact")] + list(info.get("actors", [])):
        if a is not None and a.error is not None:
            res.violation("unexpected-exception/%s" % type(a.error).__name__,
                          "%s raised %r" % (a.role, a.error), tb=getattr(a, "tb", None))
    for who, kind, payload in ctx.submit_results:
        if kind == "raised" and "cannot schedule new futures" not in payload:
            res.violation("submit/wrong-error", "submit raised RuntimeError(%r)" % payload)
    # exactly one shutdown at the wrapped executor
    if len(me.shutdowns) != 1:
        res.violation("delegate-shutdown-count/%d" % len(me.shutdowns),
                      "wrapped executor saw %d shutdown() calls" % len(me.shutdowns))
    overlapped = False
    calls = {e[4]["tag"]: e[0] for e in LOG.select("call", op="submit")}
    sd_call = [e[0] for e in LOG.select("call", op="shutdown")]
    sd_ret = [e[0] for e in LOG.select("ret", op="shutdown")]
    for e in LOG.select("ret", op="submit"):
        c = e[4]["call"]
        if sd_call and sd_ret and not (e[0] < sd_call[0] or c > sd_ret[0]):
            overlapped = True
    # every future ever returned: cancel() count
    all_futs = list(ctx.returned)
    undone = 0
    for f in all_futs:
        n = len(f.cancel_calls)
        was_done = None
        for (g, d) in ctx.snapshot:
            if g is f:
                was_done = d
        if n > 1:
            res.violation("cancel-count/%d" % n, "future %s got %d cancel() calls" % (f.tag, n))
        if was_done is None:
            # returned by a submit() that finished after shutdown() returned: it must not exist
            # unless it was handed out while shutdown was still in progress and is covered
            if n == 0 and not f.done():
                res.violation("escaped-future/after-shutdown",
                              "submit() returned %s after shutdown() had returned and it was never cancelled" % f.tag)
        elif not was_done:
            undone += 1
            if n == 0:
                res.violation("escaped-future/not-cancelled",
                              "future %s was not done when shutdown() returned but never received cancel()" % f.tag)
        elif n == 0 and not f.done():
            pass
    # futures returned by submit must be tracked: a racer future that is pending and uncancelled
    for who, kind, payload in ctx.submit_results:
        if kind == "future" and not payload.done() and len(payload.cancel_calls) == 0:
            res.violation("escaped-future/racer", "submit() raced with shutdown and returned uncovered %s" % payload.tag)
    if overlapped or undone:
        site = info.get("site")
        res.key(label, site if site else info.get("sig", "seq"))
    res.count("futures_checked", len(all_futs))
    res.count("undone_at_shutdown", undone)
    res.count("submit_overlapping_shutdown", 1 if overlapped else 0)
    res.sample({"scenario": label, "placement": info.get("site"), "submit_results": [(w, k) for w, k, _ in ctx.submit_results],
                "cancel_calls": {f.tag: len(f.cancel_calls) for f in all_futs}})


def run_fuzz(case, res):
    rng = random.Random("c10/%s/%s" % (case["seed"], case["idx"]))
    scn = CosScenario({"earlier": "", "resub": False, "dir": "", "name": "cos.fuzz/x"})
    for it in range(case["n"]):
        begin("rt")
        fresh = case.get("fresh")
        earlier = "" if fresh else "".join(rng.choice("prd") for _ in range(rng.randint(0, 4)))
        scn.case = {"earlier": earlier, "resub": rng.random() < 0.4, "dir": "", "name": "cos.fuzz/x"}
        ctx = scn.setup()
        try:
            TR.set_fuzz(rng.choice([0.3, 0.5, 0.7] if fresh else [0.05, 0.15, 0.3]), rng.random())
            nsub = rng.randint(1, 2 if fresh else 3)
            actors = []
            for k in range(nsub):
                def submitter(k=k, m=1 if fresh else rng.randint(1, 4)):
                    for j in range(m):
                        scn.do_submit(ctx, "s%d.%d" % (k, j))
                actors.append(ctx.actor("S%d" % k, submitter))
            actors.append(ctx.actor("D", scn.do_shutdown, ctx))
            rng.shuffle(actors)
            for a in actors:
                a.go()
            for a in actors:
                if not a.wait() and not LM.deadlocks:
                    raise instr.Inconclusive("fuzz actor stuck: " + instr.describe_threads())
            TR.set_fuzz(0.0)
            res.execs += 1
            check_common(res)
            if not LM.deadlocks:
                sig = hash(tuple((e[2], e[3], e[4].get("op")) for e in LOG.events if e[3] in ("call", "ret"))) & 0xFFFFFF
                oracle(ctx, res, "fuzz/" + earlier, {"actors": actors, "sig": "sig%06x" % sig})
        finally:
            end(ctx)


def run_case(case, res):
    if case["kind"] == "layered":
        rng = random.Random("c10/%s/%s" % (case["seed"], case["name"]))
        Sweep(LayeredScenario(case), res, "vt", case["name"]).run(case.get("cap"), rng)
    elif case["kind"] == "sweep":
        rng = random.Random("c10/%s/%s" % (case["seed"], case["name"]))
        Sweep(CosScenario(case), res, "rt", case["name"], gran=case.get("gran")).run(case.get("cap"), rng)
    else:
        run_fuzz(case, res)
