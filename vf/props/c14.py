"""C14 - f_and / f_or are `and` / `or` folds over the order in which inputs finish.

Inputs are spy futures completed by the harness.  Sequential completions: every
permutation x outcome assignment is compared with the fold model.  Concurrent
completions (placement sweeps, two completer threads): the output must equal the
model for some linearisation of the two overlapping completions.  Cancel fan-out,
duplicates, single input, f_nocancel shielding."""
import random
import itertools
import concurrent.futures as cf

from .. import instr, harness
from ..harness import (Sweep, SweepNested, Ctx, SpyFuture, call, check_common, begin, end, drive, UserErrorA, outcome, outcome_repr)
from ..instr import LOG, TR, LM, Inconclusive

TITLE = "f_and / f_or folds"
RULE = ("one execution = f_and or f_or over n spy inputs with one outcome assignment (truthy / falsy values of several types, "
        "exception, cancelled, never finishing) completed in one order, or with two completions overlapping at one placement, "
        "or an output cancel at one point; distinct & non-trivial = (operator, assignment, order | placement site) for which "
        "the model decides the output")
REQUIRED = ["line_events", "lock_acquisitions"]

VALUES = {"T1": 1, "Ts": "x", "Tl": [0], "F0": 0, "Fs": "", "Fn": None, "Fl": []}
OUTCOMES = ["T1", "Ts", "F0", "Fn", "E", "X", "K", "C", "N"]  # N = never finishes; X = BaseException-only exception;
#                                                              K = failed with a CancelledError instance (not cancelled)


class UserBase(BaseException):
    pass


def cases(tier, seed):
    out = []
    for op in ("and", "or"):
        for n in (1, 2, 3):
            out.append({"name": "bool.order/%s/n=%d" % (op, n), "kind": "order", "op": op, "n": n, "sample": None})
        out.append({"name": "bool.order/%s/n=4" % op, "kind": "order", "op": op, "n": 4, "sample": 600 if tier == "quick" else 6000})
        if tier == "thorough":
            out.append({"name": "bool.order/%s/n=5" % op, "kind": "order", "op": op, "n": 5, "sample": 6000})
        for fam in ("dup", "nocancel", "outcancel", "large"):
            out.append({"name": "bool.%s/%s" % (fam, op), "kind": fam, "op": op})
        cap = 30 if tier == "quick" else None
        for assign in (("T1", "F0"), ("F0", "T1"), ("T1", "Ts"), ("F0", "Fn"), ("E", "T1"), ("F0", "E"), ("T1", "F0", "Ts"), ("F0", "T1", "E")):
            out.append({"name": "bool.concurrent/%s/%s" % (op, "-".join(assign)), "kind": "conc", "op": op, "assign": list(assign), "cap": cap})
            out.append({"name": "bool.nested/%s/%s" % (op, "-".join(assign)), "kind": "nested", "op": op, "assign": list(assign),
                        "budget": 400 if tier == "quick" else None})
        # compositions in which cancelling a loser feeds back into the output itself
        for shape in ("and-over", "zip-over", "or-over", "callback"):
            for decide in ("first", "second"):
                out.append({"name": "bool.feedback/%s/%s/%s" % (op, shape, decide), "kind": "feedback", "op": op, "shape": shape, "decide": decide})
        # inputs that are library futures sharing a dependency (two f_map views of one future, a third plain input):
        # an input's cancel() / completion callbacks take that input's own lock
        vops = ["cancel_v1", "cancel_d", "decide_x", "complete_d", "cancel_out", "fail_d"]
        for a in vops:
            for b in vops:
                if a != b:
                    out.append({"name": "bool.views/%s/%s|%s" % (op, a, b), "kind": "views", "op": op, "a": a, "b": b,
                                "cap": 30 if tier == "quick" else None})
    return out


def fold(op, assign, order):
    """Model.  assign: outcome code per input; order: indices in completion order (inputs with
    'N' never complete).  Returns ('value', v) | ('exc', i) | ('cancelled',) | ('pending',) and the set of
    inputs that must have received cancel()."""
    remaining = set(range(len(assign)))
    for i in order:
        code = assign[i]
        if code == "N":
            continue
        remaining.discard(i)
        truthy = code.startswith("T")
        falsy = code.startswith("F") or code in ("E", "C", "X", "K")
        last = not remaining
        if op == "or":
            decide = truthy or last
        else:
            decide = falsy or last
        if decide:
            if code in ("E", "X", "K"):
                return ("exc", i), set(remaining)
            if code == "C":
                return ("cancelled",), set(remaining)
            return ("value", VALUES[code]), set(remaining)
    return ("pending",), set()


def mk(op, ins):
    F = instr.ME.futures
    return (F.f_and if op == "and" else F.f_or)(*ins)


def complete(f, code, i, excs):
    if f.done():
        return False
    try:
        if code in ("E", "X", "K"):
            cls = {"E": UserErrorA, "X": UserBase, "K": cf.CancelledError}[code]
            e = excs.setdefault(i, cls("in%d" % i))
            f.set_exception(e)
        elif code == "C":
            f.cancel()
        else:
            f.set_result(VALUES[code])
    except cf.InvalidStateError:
        return False
    return True


def check(res, label, op, out, ins, assign, orders, excs, harness_cancelled=()):
    """orders: list of candidate completion orders (linearisations)"""
    o = outcome(out)
    ok = False
    exps = []
    for order in orders:
        exp, must_cancel = fold(op, assign, order)
        exps.append(exp)
        if exp[0] == "pending":
            good = o[0] == "pending"
        elif exp[0] == "value":
            good = o[0] == "value" and o[1] == exp[1] and type(o[1]) is type(exp[1])
        elif exp[0] == "exc":
            good = o[0] == "exc" and o[1] is excs.get(exp[1])
        else:
            good = o[0] == "cancelled"
        if good:
            ok = True
            # cancel fan-out for this linearisation
            for i in must_cancel:
                if not ins[i].cancel_calls and not ins[i].done():
                    res.violation("losers-not-cancelled/%s" % op, "%s: output decided (%s) but pending input %d received no cancel()" % (label, outcome_repr(o), i))
            break
    if not ok:
        res.violation("wrong-fold/%s" % op, "%s: output is %s; the fold over the completion order gives %s (assignment %s)"
                      % (label, outcome_repr(o), exps, assign))
    return ok


VALUES_ID = {}


def run_order(case, res):
    op, n = case["op"], case["n"]
    rng = random.Random("c14/%s/%s" % (case["seed"], case["name"]))
    combos = []
    for assign in itertools.product(OUTCOMES, repeat=n):
        for order in itertools.permutations(range(n)):
            combos.append((assign, order))
    if case["sample"] and len(combos) > case["sample"]:
        combos = rng.sample(combos, case["sample"])
    for ci, (assign, order) in enumerate(combos):
        # how many inputs (a prefix of the completion order) are already finished when f_and/f_or is called
        pre = (0, 1, n)[ci % 3] if n > 1 else 0
        begin("rt")
        ctx = Ctx()
        try:
            ins = [SpyFuture("in%d" % i) for i in range(n)]
            excs = {}
            # every fifth combination: the inputs are library futures derived from the harness's ones
            wrap = (None, None, "map", None, "proxy")[ci % 5]
            F = instr.ME.futures
            given = ins if wrap is None else [(F.f_map(f, lambda v: v) if wrap == "map" else F.f_proxy(f)) for f in ins]
            for i in order[:pre]:
                if assign[i] != "N":
                    complete(ins[i], assign[i], i, excs)
            try:
                out = mk(op, given)
            except BaseException as e:
                res.violation("constructor-raised/%s/%s" % (op, type(e).__name__), "f_%s with %d already finished inputs (%s) raised %r" % (op, pre, assign, e))
                res.execs += 1
                continue
            if n == 1 and out is not given[0]:
                res.violation("single-input-not-returned/%s" % op, "f_%s(f) did not return f itself" % op)
            escaped = None
            for i in order[pre:]:
                if assign[i] != "N":
                    try:
                        complete(ins[i], assign[i], i, excs)
                    except BaseException as e:
                        escaped = e
            if escaped is not None:
                res.violation("callback-raised-into-completer/%s" % type(escaped).__name__,
                              "f_%s %s: completing an input let %r escape from the combinator's callback" % (op, assign, escaped))
            res.execs += 1
            label = "f_%s %s order=%s (%d finished before the call%s)" % (op, assign, order, pre, ", inputs given as f_%s views" % wrap if wrap else "")
            # inputs already finished at the call are seen in argument order
            order = tuple(sorted(order[:pre])) + tuple(order[pre:])
            if n > 1:
                check(res, label, op, out, ins, assign, [order], excs)
            if fold(op, assign, order)[0][0] != "pending":
                res.key(op, assign, order, pre, wrap)
            res.sample({"op": op, "inputs": assign, "completion_order": order, "output": outcome_repr(outcome(out)),
                        "cancels_received": [len(f.cancel_calls) for f in ins]}, limit=1)
        finally:
            end(ctx)
    check_common(res)


def run_dup(case, res):
    op = case["op"]
    F = instr.ME.futures
    for pattern in ("aab", "aba", "aa", "abab", "baa"):
        for kind in ("spy-pending", "spy-done", "lib-pending", "lib-done"):
            for val in ("T1", "F0"):
                begin("rt")
                ctx = Ctx()
                try:
                    srcs = {"a": SpyFuture("a"), "b": SpyFuture("b")}
                    if kind.startswith("lib"):
                        futs = {k: F.f_map(v, lambda x: x) for k, v in srcs.items()}
                    else:
                        futs = dict(srcs)
                    label = "f_%s duplicates pattern=%s %s val=%s" % (op, pattern, kind, val)
                    assign = {"a": val, "b": "T1"}
                    excs = {}
                    try:
                        if kind.endswith("done"):
                            complete(srcs["a"], val, 0, excs)
                        out = mk(op, [futs[ch] for ch in pattern])
                        complete(srcs["a"], val, 0, excs)
                        complete(srcs["b"], "T1", 1, excs)
                    except Exception as e:
                        res.violation("duplicate-inputs/%s" % type(e).__name__, "%s: raised %r" % (label, e))
                        res.execs += 1
                        continue
                    res.execs += 1
                    o = outcome(out)
                    # model: a repeated input counts once; completion order a, b
                    distinct = []
                    for ch in pattern:
                        if ch not in distinct:
                            distinct.append(ch)
                    exp, _ = fold(op, [assign[ch] for ch in distinct], [distinct.index(ch) for ch in "ab" if ch in distinct])
                    if o[0] == "pending":
                        res.violation("duplicate-inputs/pending", "%s: output never resolves" % label)
                    elif exp[0] == "value" and o != ("value", exp[1]):
                        res.violation("duplicate-inputs/wrong", "%s: output %s, expected %r" % (label, outcome_repr(o), exp[1]))
                    res.key("dup", op, pattern, kind, val)
                finally:
                    end(ctx)
    check_common(res)


def run_nocancel(case, res):
    op = case["op"]
    F = instr.ME.futures
    for decide_first, b_running in ((True, False), (False, False), (True, True), (False, True)):
        begin("rt")
        ctx = Ctx()
        try:
            a, b, c = SpyFuture("a"), SpyFuture("b"), SpyFuture("c")
            if b_running:
                b.set_running_or_notify_cancel()  # already running when it is shielded
            out = mk(op, [a, F.f_nocancel(b), c])
            if decide_first:
                a.set_result(1 if op == "or" else 0)
            else:
                out.cancel()
            res.execs += 1
            if b.cancel_calls:
                res.violation("nocancel-leak/%s" % op, "f_%s: cancel() reached an input wrapped in f_nocancel" % op)
            if not c.cancel_calls:
                res.violation("losers-not-cancelled/%s" % op, "f_%s: pending input c received no cancel() after %s" % (op, "decision" if decide_first else "output cancel"))
            res.key("nocancel", op, decide_first, b_running)
        finally:
            end(ctx)


def run_outcancel(case, res):
    op = case["op"]
    for n, k_done, running in [(n, k, rn) for n in (2, 3, 6) for k in range(0, n) for rn in ("none", "all", "odd")]:
        if True:
            begin("rt")
            ctx = Ctx()
            try:
                ins = [SpyFuture("in%d" % i) for i in range(n)]
                for i, f in enumerate(ins):
                    if running == "all" or (running == "odd" and i % 2 == 1):
                        f.set_running_or_notify_cancel()  # work already started: still a pending input
                out = mk(op, ins)
                for i in range(k_done):
                    ins[i].set_result(0 if op == "or" else 1)  # undecided values
                r = out.cancel()
                res.execs += 1
                label = "f_%s n=%d, %d inputs done, running inputs: %s, then output.cancel() -> %r" % (op, n, k_done, running, r)
                if r is not True and k_done < n:
                    res.violation("output-cancel-refused/%s" % op, label)
                for i in range(k_done, n):
                    if not ins[i].cancel_calls:
                        res.violation("output-cancel-not-fanned-out/%s" % op, "%s: pending input %d received no cancel()" % (label, i))
                res.key("outcancel", op, n, k_done, running)
            finally:
                end(ctx)


def run_large(case, res):
    op = case["op"]
    rng = random.Random("c14l/%s" % case["seed"])
    for n in (50, 500):
        begin("rt")
        ctx = Ctx()
        try:
            ins = [SpyFuture("in%d" % i) for i in range(n)]
            out = mk(op, ins)
            order = list(range(n))
            rng.shuffle(order)
            neutral = "F0" if op == "or" else "T1"
            assign = [neutral] * n
            special = order[n // 2]
            assign[special] = "T1" if op == "or" else "F0"
            excs = {}
            for i in order:
                complete(ins[i], assign[i], i, excs)
            res.execs += 1
            check(res, "f_%s large n=%d" % (op, n), op, out, ins, assign, [order], excs)
            res.key("large", op, n)
        finally:
            end(ctx)


class ConcScenario(object):
    """Two inputs completed by two threads, overlapping at one placement."""

    def __init__(self, case):
        self.case = case

    def setup(self):
        ctx = Ctx()
        n = len(self.case["assign"])
        ctx.ins = [SpyFuture("in%d" % i) for i in range(n)]
        ctx.out = mk(self.case["op"], ctx.ins)
        ctx.excs = {}
        ctx.done_order = []
        if n == 3:
            complete(ctx.ins[2], self.case["assign"][2], 2, ctx.excs)
        return ctx

    def victim_role(self, ctx):
        return "V"

    def start_victim(self, ctx):
        return ctx.actor("V", complete, ctx.ins[0], self.case["assign"][0], 0, ctx.excs).go()

    def intervene(self, ctx):
        complete(ctx.ins[1], self.case["assign"][1], 1, ctx.excs)

    def finish(self, ctx):
        pass

    def oracle(self, ctx, res, info):
        assign = self.case["assign"]
        pre = [2] if len(assign) == 3 else []
        orders = [pre + [0, 1], pre + [1, 0]]
        if not info.get("hit") and info.get("pos") is not None:
            orders = [pre + [0, 1]]
        label = "f_%s concurrent %s placement=%s" % (self.case["op"], assign, info.get("site"))
        check(res, label, self.case["op"], ctx.out, ctx.ins, assign, orders, ctx.excs)
        if info.get("hit"):
            res.key("conc", self.case["op"], "-".join(assign), info.get("site"))


class NestScenario(ConcScenario):
    """completion of input 0 paused at i; completion of input 1 started and paused at j; input 0's
    completer is released first, then input 1's."""

    def role_a(self, ctx):
        return "V"

    def start_a(self, ctx):
        return self.start_victim(ctx)

    def intervene1(self, ctx):
        self.intervene(ctx)

    def oracle(self, ctx, res, info):
        assign = self.case["assign"]
        pre = [2] if len(assign) == 3 else []
        orders = [pre + [0, 1], pre + [1, 0]]
        label = "f_%s nested %s placement=%s/%s" % (self.case["op"], assign, info.get("site"), info.get("site2"))
        check(res, label, self.case["op"], ctx.out, ctx.ins, assign, orders, ctx.excs)
        if info.get("hit") and info.get("hit2"):
            res.key("nested", self.case["op"], "-".join(assign), info.get("site"), info.get("site2"))


def run_feedback(case, res):
    """out = f_or/f_and(a, b); something else depends on `out` and on the loser: z = f_and(out, b) / f_zip(out, b) /
    f_or(out, b), or a user callback on the loser that cancels `out`.  When one input decides `out`, the loser is
    cancelled, which reaches `out` again (on the same thread, inside the decision): `out` keeps the decided outcome."""
    F = instr.ME.futures
    op = case["op"]
    for how in ("value", "exc"):
        begin("rt")
        ctx = Ctx()
        try:
            a, b = SpyFuture("a"), SpyFuture("b")
            out = mk(op, [a, b])
            z = None
            if case["shape"] == "and-over":
                z = F.f_and(out, b)
            elif case["shape"] == "zip-over":
                z = F.f_zip(out, b)
            elif case["shape"] == "or-over":
                z = F.f_or(out, b)
            else:
                b.add_done_callback(lambda _f: out.cancel())
                a.add_done_callback(lambda _f: None)
            decider, loser = (a, b) if case["decide"] == "first" else (b, a)
            if case["shape"] == "callback" and case["decide"] == "second":
                a.add_done_callback(lambda _f: out.cancel())
            e = UserErrorA("decider")
            want = None
            try:
                if how == "value":
                    v = "decisive" if op == "or" else 0
                    want = ("value", v)
                    decider.set_result(v)
                else:
                    want = ("exc", e) if op == "and" else None  # a failed input decides f_and; for f_or it is just falsy
                    decider.set_exception(e)
            except instr.DeadlockBroken:
                pass
            res.execs += 1
            check_common(res, deadlock_suffix="@bool.feedback/%s" % case["shape"])
            if LM.deadlocks:
                continue
            o = outcome(out)
            label = "f_%s(a, b) with %s depending on it, %s decides by %s" % (op, case["shape"], "a" if decider is a else "b", how)
            if want is not None:
                ok = (o == want) if want[0] == "value" else (o[0] == "exc" and o[1] is want[1])
                if not ok:
                    res.violation("decided-outcome-lost/%s" % case["shape"], "%s: the output is %s, the deciding input gave %s"
                                  % (label, outcome_repr(o), outcome_repr(want)))
                elif not loser.cancel_calls and not loser.done():
                    res.violation("losers-not-cancelled/%s" % op, "%s: the other input received no cancel()" % label)
            res.key("feedback", op, case["shape"], case["decide"], how)
            res.sample({"op": op, "dependent": case["shape"], "decided_by": [case["decide"], how], "output": outcome_repr(o),
                        "dependent_outcome": outcome_repr(outcome(z)) if z is not None else None}, limit=1)
        finally:
            end(ctx)


class ViewScenario(object):
    """out = f_or/f_and(f_map(d), f_map(d), x): thread A acts on one input (cancels a view / the shared source,
    completes it), thread B makes x decide the output, which cancels the losers.  Every call returns and the
    output is decided."""

    def __init__(self, case):
        self.case = case

    def setup(self):
        F = instr.ME.futures
        ctx = Ctx()
        ctx.d = SpyFuture("d")
        ctx.x = SpyFuture("x")
        ctx.v1 = F.f_map(ctx.d, lambda v: v)
        ctx.v2 = F.f_map(ctx.d, lambda v: v)
        ctx.out = mk(self.case["op"], [ctx.v1, ctx.v2, ctx.x])
        ctx.rets = {}
        return ctx

    def act(self, ctx, what):
        op = self.case["op"]
        try:
            if what == "cancel_v1":
                ctx.rets[what] = ctx.v1.cancel()
            elif what == "cancel_d":
                ctx.rets[what] = ctx.d.cancel()
            elif what == "cancel_out":
                ctx.rets[what] = ctx.out.cancel()
            elif what == "decide_x":
                ctx.x.set_result("decisive" if op == "or" else 0)
            elif what == "complete_d":
                ctx.d.set_result(0 if op == "or" else "undecided")
            elif what == "fail_d":
                ctx.d.set_exception(UserErrorA("d"))
        except cf.InvalidStateError:
            pass  # the future was already finished / cancelled by the other side

    def victim_role(self, ctx):
        return "V"

    def start_victim(self, ctx):
        return ctx.actor("V", self.act, ctx, self.case["a"]).go()

    def intervene(self, ctx):
        self.act(ctx, self.case["b"])

    def finish(self, ctx):
        for f, v in ((ctx.d, 0 if self.case["op"] == "or" else "undecided"), (ctx.x, 0 if self.case["op"] == "or" else "last")):
            if not f.done():
                try:
                    f.set_result(v)
                except cf.InvalidStateError:
                    pass

    def oracle(self, ctx, res, info):
        label = "%s placement=%s" % (self.case["name"], info.get("site"))
        for a in (info.get("victim"), info.get("iact")):
            if a is not None and a.error is not None and not isinstance(a.error, instr.DeadlockBroken):
                res.violation("unexpected-exception/%s" % type(a.error).__name__, "%s: %r" % (label, a.error), tb=getattr(a, "tb", None))
        o = outcome(ctx.out)
        if o[0] == "pending":
            res.violation("output-pending/views", "%s: every input is finished (%s) but the output is pending"
                          % (label, [outcome_repr(outcome(f)) for f in (ctx.v1, ctx.v2, ctx.x)]))
        decided_by_x = self.case["a"] == "decide_x" or self.case["b"] == "decide_x"
        if decided_by_x and o[0] == "value" and o[1] in ("decisive", 0) and ctx.x.done() and not ctx.x.cancelled():
            # x decided: the views (still pending then, or cancelled meanwhile) must have been asked to cancel -> finished now
            for name, v in (("v1", ctx.v1), ("v2", ctx.v2)):
                if not v.done():
                    res.violation("loser-not-cancelled/views", "%s: output decided by x but %s is still pending" % (label, name))
        if info.get("hit"):
            res.key("views", self.case["op"], self.case["a"], self.case["b"], info.get("site"))
        res.count("view_outputs_judged")
        res.sample({"op": self.case["op"], "thread_A": self.case["a"], "thread_B": self.case["b"], "placement": info.get("site"),
                    "output": outcome_repr(o), "inputs": [outcome_repr(outcome(f)) for f in (ctx.v1, ctx.v2, ctx.x)]}, limit=1)


def run_case(case, res):
    k = case["kind"]
    if k == "feedback":
        return run_feedback(case, res)
    if k == "views":
        rng = random.Random("c14v/%s/%s" % (case["seed"], case["name"]))
        Sweep(ViewScenario(case), res, "rt", case["name"]).run(case["cap"], rng, per_site=2)
        return
    if k == "nested":
        rng = random.Random("c14n/%s/%s" % (case["seed"], case["name"]))
        SweepNested(NestScenario(case), res, "rt", case["name"]).run(None, None, rng, per_site=2, budget=case["budget"])
        return
    if k == "order":
        run_order(case, res)
    elif k == "dup":
        run_dup(case, res)
    elif k == "nocancel":
        run_nocancel(case, res)
    elif k == "outcancel":
        run_outcancel(case, res)
    elif k == "large":
        run_large(case, res)
    else:
        rng = random.Random("c14/%s/%s" % (case["seed"], case["name"]))
        Sweep(ConcScenario(case), res, "rt", case["name"]).run(case["cap"], rng, per_site=3)
