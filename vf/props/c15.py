"""C15 - f_zip / f_sequence / f_traverse keep positions and propagate the first failure.

Spy inputs completed by the harness in every order (small n exhaustively, larger n
sampled, all counts 0..25 plus 50 / 2000), duplicates, failing / cancelled inputs
(first observed failure wins - for overlapping completions any linearisation),
output cancel fan-out, f_traverse's calls to fn."""
import random
import itertools
import concurrent.futures as cf

from .. import instr, harness
from ..harness import (Sweep, SweepNested, Ctx, SpyFuture, call, check_common, begin, end, drive, Recorded, UserErrorA, UserErrorB,
                       outcome, outcome_repr)
from ..instr import LOG, TR, LM, Inconclusive

TITLE = "f_zip / f_sequence / f_traverse"
RULE = ("one execution = one of f_zip / f_sequence / f_traverse over n spy inputs (n in 0..25, 50, 2000; duplicates allowed) "
        "with one outcome assignment (value / exception / cancelled) completed in one order, or with two completions overlapping "
        "at one or two placements, or an output cancel; distinct & non-trivial = (function, n, assignment, order | placement "
        "site) whose output reached a terminal state")
REQUIRED = ["line_events", "lock_acquisitions"]
FORMS = ["zip", "sequence", "traverse"]


def cases(tier, seed):
    out = []
    for form in FORMS:
        for n in (0, 1, 2, 3):
            out.append({"name": "zip.order/%s/n=%d" % (form, n), "kind": "order", "form": form, "n": n, "sample": None})
        out.append({"name": "zip.order/%s/n=4" % form, "kind": "order", "form": form, "n": 4, "sample": 400 if tier == "quick" else 4000})
        out.append({"name": "zip.counts/%s" % form, "kind": "counts", "form": form, "big": 2000})
        for fam in ("dup", "outcancel", "traverse_fn"):
            if fam == "traverse_fn" and form != "traverse":
                continue
            out.append({"name": "zip.%s/%s" % (fam, form), "kind": fam, "form": form})
        cap = 30 if tier == "quick" else None
        for assign in (("V", "V"), ("V", "E"), ("E", "E"), ("E", "C"), ("V", "V", "V"), ("E", "V", "V")):
            out.append({"name": "zip.concurrent/%s/%s" % (form, "-".join(assign)), "kind": "conc", "form": form, "assign": list(assign), "cap": cap})
            out.append({"name": "zip.nested/%s/%s" % (form, "-".join(assign)), "kind": "nested", "form": form, "assign": list(assign),
                        "budget": 300 if tier == "quick" else None})
        # the call itself is the suspended side: inputs finish (on another thread) while the function is wiring them up
        for pre in ("none", "first-done"):
            for second in ("complete0", "complete1", "complete_all", "fail1", "cancel1"):
                out.append({"name": "zip.construct/%s/%s/%s" % (form, pre, second), "kind": "construct", "form": form, "pre": pre,
                            "second": second, "cap": None})
        # inputs that are library futures sharing a dependency: two f_map views of one future + a plain future
        vops = ["cancel_v1", "cancel_d", "complete_d", "fail_d", "fail_x", "complete_x", "cancel_out"]
        for a in vops:
            for b in vops:
                if a != b:
                    out.append({"name": "zip.views/%s/%s|%s" % (form, a, b), "kind": "views", "form": form, "a": a, "b": b,
                                "cap": 24 if tier == "quick" else None})
    return out


class FalsyError(Exception):
    """an exception whose truth value is False (e.g. an error collection that happens to be empty)"""

    def __len__(self):
        return 0


ITERABLE_KIND = ["list"]  # how f_sequence / f_traverse are handed their inputs: list | generator | iterator | map


def as_iterable(xs):
    k = ITERABLE_KIND[0]
    if k == "generator":
        return (x for x in xs)
    if k == "iterator":
        return iter(list(xs))
    if k == "map":
        return map(lambda x: x, list(xs))
    return list(xs)


def mk(form, ins, fn_log=None):
    F = instr.ME.futures
    if form == "zip":
        return F.f_zip(*ins)
    if form == "sequence":
        return F.f_sequence(as_iterable(ins))
    table = list(ins)

    def fn(k):
        if fn_log is not None:
            fn_log.append(k)
        return table[k]
    return F.f_traverse(fn, as_iterable(range(len(ins))))


def complete(f, code, i, excs):
    if f.done():
        return False
    try:
        if code == "E":
            f.set_exception(excs.setdefault(i, UserErrorA("in%d" % i)))
        elif code == "C":
            f.cancel()
        else:
            f.set_result(("val", i))
    except cf.InvalidStateError:
        return False
    return True


def model(assign, order, dup_of=None):
    """-> ('value', list) | ('exc', i) | ('cancelled',) | ('pending',)"""
    seen = set()
    for i in order:
        seen.add(i)
        if assign[i] == "E":
            return ("exc", i)
        if assign[i] == "C":
            return ("cancelled",)
    if len(seen) == len(set(range(len(assign)))):
        return ("value", [("val", i) for i in range(len(assign))])
    return ("pending",)


def check(res, label, form, out, assign, orders, excs, idx_map=None):
    o = outcome(out)
    exps = []
    for order in orders:
        exp = model(assign, order)
        exps.append(exp)
        if exp[0] == "pending" and o[0] == "pending":
            return True
        if exp[0] == "cancelled" and o[0] == "cancelled":
            return True
        if exp[0] == "exc" and o[0] == "exc" and o[1] is excs.get(exp[1]):
            return True
        if exp[0] == "value" and o[0] == "value":
            want = exp[1] if idx_map is None else [("val", idx_map[k]) for k in range(len(idx_map))]
            got = o[1]
            type_ok = isinstance(got, tuple) if form == "zip" else type(got) is list
            if list(got) == want and type_ok:
                return True
            if list(got) == want and not type_ok:
                res.violation("wrong-container-type/%s" % form, "%s: result is a %s" % (label, type(got).__name__))
                return False
    if o[0] == "value" and any(hasattr(x, "add_done_callback") for x in (o[1] or [])):
        res.violation("future-left-in-result/%s" % form, "%s: result contains an unresolved Future object: %r" % (label, o[1]))
    else:
        res.violation("wrong-result/%s" % form, "%s: output is %s; expected %s" % (label, outcome_repr(o), exps))
    return False


def run_order(case, res):
    form, n = case["form"], case["n"]
    rng = random.Random("c15/%s/%s" % (case["seed"], case["name"]))
    combos = [(a, o) for a in itertools.product("VEC", repeat=n) for o in itertools.permutations(range(n))]
    if case["sample"] and len(combos) > case["sample"]:
        combos = rng.sample(combos, case["sample"])
    for ci, (assign, order) in enumerate(combos):
        begin("rt")
        ctx = Ctx()
        try:
            ins = [SpyFuture("in%d" % i) for i in range(n)]
            # every fourth combination: the inputs are library futures derived from the harness's ones, and some are
            # already finished when the function is called
            wrap = (None, None, None, "map")[ci % 4] if n else None
            F = instr.ME.futures
            given = ins if wrap is None else [F.f_map(f, lambda v: v) for f in ins]
            excs = {}
            if ci % 7 == 3:
                # the failing inputs fail with exception objects that are falsy
                for i in range(n):
                    excs[i] = FalsyError("in%d" % i)
            pre = (0, 1, n)[(ci // 4) % 3] if wrap else 0
            # the inputs arrive as a list, a generator, an iterator or a map object (one-shot iterables)
            ITERABLE_KIND[0] = ("list", "generator", "iterator", "map", "list")[ci % 5]
            for i in order[:pre]:
                complete(ins[i], assign[i], i, excs)
            out = mk(form, given)
            eff_order = []
            for i in order:
                if complete(ins[i], assign[i], i, excs):
                    eff_order.append(i)
            res.execs += 1
            label = "f_%s n=%d %s order=%s%s" % (form, n, "".join(assign), order,
                                                " (inputs given as f_map views, %d finished before the call)" % pre if wrap else "")
            # inputs already finished at the call are seen in argument order
            lin = list(sorted(order[:pre])) + list(order[pre:])
            if check(res, label, form, out, assign, [lin], excs):
                res.key(form, n, "".join(assign), order, wrap, pre)
            # after a failure / cancel decided the output nothing else is required of the inputs
            res.sample({"function": "f_" + form, "inputs": "".join(assign), "completion_order": order, "output": outcome_repr(outcome(out))}, limit=1)
        finally:
            ITERABLE_KIND[0] = "list"
            end(ctx)
    check_common(res)


def run_counts(case, res):
    form = case["form"]
    rng = random.Random("c15n/%s/%s" % (case["seed"], case["name"]))
    for n in list(range(0, 26)) + [50, case["big"]]:
        for pending in (True, False):
            begin("rt")
            ctx = Ctx()
            try:
                ins = [SpyFuture("in%d" % i) for i in range(n)]
                order = list(range(n))
                rng.shuffle(order)
                excs = {}
                if not pending:
                    for i in order:
                        complete(ins[i], "V", i, excs)
                fn_log = []
                try:
                    out = mk(form, ins, fn_log)
                except Exception as e:
                    res.violation("raised/%s/%s" % (form, type(e).__name__), "f_%s with %d inputs raised %r" % (form, n, e))
                    res.execs += 1
                    continue
                if pending:
                    for i in order:
                        complete(ins[i], "V", i, excs)
                res.execs += 1
                label = "f_%s n=%d %s" % (form, n, "pending inputs, random order" if pending else "inputs already done")
                if check(res, label, form, out, ["V"] * n, [order], excs):
                    res.key("counts", form, n, pending)
                if form == "traverse" and fn_log != list(range(n)):
                    res.violation("traverse-fn-calls", "%s: fn called with %s" % (label, fn_log[:30]))
            finally:
                end(ctx)
    check_common(res)


def run_dup(case, res):
    form = case["form"]
    for pattern in ("aa", "aab", "aba", "abba", "abab"):
        for when in ("pending", "done"):
            begin("rt")
            ctx = Ctx()
            try:
                srcs = {"a": SpyFuture("a"), "b": SpyFuture("b")}
                excs = {}
                idx = {"a": 0, "b": 1}
                if when == "done":
                    complete(srcs["a"], "V", 0, excs)
                out = mk(form, [srcs[ch] for ch in pattern])
                complete(srcs["b"], "V", 1, excs)
                complete(srcs["a"], "V", 0, excs)
                res.execs += 1
                o = outcome(out)
                want = [("val", idx[ch]) for ch in pattern]
                label = "f_%s duplicates %s (%s)" % (form, pattern, when)
                if o[0] != "value" or list(o[1]) != want:
                    res.violation("duplicates/%s" % form, "%s: output %s, expected %s" % (label, outcome_repr(o), want))
                res.key("dup", form, pattern, when)
            finally:
                end(ctx)


def run_outcancel(case, res):
    form = case["form"]
    combos = [(n, k, rn, None) for n in (1, 2, 5) for k in range(0, n) for rn in ("none", "all", "odd")]
    # one input was cancelled before the function was called (the output comes out cancelled): the others are still asked
    combos += [(n, 0, "none", pc) for n in (2, 5) for pc in (0, n // 2, n - 1)]
    for n, k_done, running, pre_cancelled in combos:
        if True:
            begin("rt")
            ctx = Ctx()
            try:
                ins = [SpyFuture("in%d" % i) for i in range(n)]
                if pre_cancelled is not None:
                    ins[pre_cancelled].cancel()
                    del ins[pre_cancelled].cancel_calls[:]
                # inputs whose work has started (cancel() may be refused by them) are pending inputs all the same
                for i, f in enumerate(ins):
                    if running == "all" or (running == "odd" and i % 2 == 1):
                        f.set_running_or_notify_cancel()
                out = mk(form, ins)
                excs = {}
                for i in range(k_done):
                    complete(ins[i], "V", i, excs)
                r = out.cancel()
                res.execs += 1
                label = "f_%s n=%d, %d done, running inputs: %s%s, output.cancel() -> %r" % (
                    form, n, k_done, running, ", input %d cancelled beforehand" % pre_cancelled if pre_cancelled is not None else "", r)
                for i in range(k_done, n):
                    if i == pre_cancelled:
                        continue
                    if not ins[i].cancel_calls:
                        res.violation("output-cancel-not-fanned-out/%s" % form, "%s: pending input %d received no cancel()" % (label, i))
                if r and not out.cancelled():
                    res.violation("cancel-true-not-cancelled/%s" % form, label)
                res.key("outcancel", form, n, k_done, running, pre_cancelled)
            finally:
                end(ctx)


def run_traverse_fn(case, res):
    F = instr.ME.futures
    for n, bad, exc_cls in ((4, None, None), (4, 2, UserErrorB), (1, 0, UserErrorB), (6, 5, UserErrorB), (0, None, None),
                            (4, 2, StopIteration), (3, 0, StopIteration), (5, 4, StopIteration), (4, 1, KeyError)):
        begin("rt")
        ctx = Ctx()
        try:
            calls = []
            e = (exc_cls or UserErrorB)("fn")
            ins = [SpyFuture("t%d" % i) for i in range(n)]

            def fn(x):
                calls.append(x)
                if x == bad:
                    raise e
                return ins[x]
            out = F.f_traverse(fn, iter(range(n)))
            for f in ins:
                if not f.done():
                    f.set_result(("val", int(f.tag[1:])))
            res.execs += 1
            o = outcome(out)
            label = "f_traverse n=%d fn raises at %s" % (n, bad)
            if bad is None:
                if calls != list(range(n)):
                    res.violation("traverse-fn-calls", "%s: fn called with %s" % (label, calls))
                if o != ("value", [("val", i) for i in range(n)]):
                    res.violation("wrong-result/traverse", "%s: %s" % (label, outcome_repr(o)))
            else:
                if o[0] != "exc" or o[1] is not e:
                    res.violation("traverse-fn-exception-lost", "%s: output is %s" % (label, outcome_repr(o)))
                if calls != list(range(bad + 1)):
                    res.violation("traverse-fn-calls", "%s: fn called with %s" % (label, calls))
            res.key("traverse_fn", n, bad, getattr(exc_cls, "__name__", None))
        finally:
            end(ctx)


class ConcScenario(object):
    def __init__(self, case):
        self.case = case

    def setup(self):
        ctx = Ctx()
        n = len(self.case["assign"])
        ctx.ins = [SpyFuture("in%d" % i) for i in range(n)]
        ctx.out = mk(self.case["form"], ctx.ins)
        ctx.excs = {}
        if n == 3:
            complete(ctx.ins[2], self.case["assign"][2], 2, ctx.excs)
        return ctx

    def victim_role(self, ctx):
        return "V"

    role_a = victim_role

    def start_victim(self, ctx):
        return ctx.actor("V", complete, ctx.ins[0], self.case["assign"][0], 0, ctx.excs).go()

    start_a = start_victim

    def intervene(self, ctx):
        complete(ctx.ins[1], self.case["assign"][1], 1, ctx.excs)

    intervene1 = intervene

    def finish(self, ctx):
        pass

    def oracle(self, ctx, res, info):
        assign = self.case["assign"]
        pre = [2] if len(assign) == 3 else []
        orders = [pre + [0, 1], pre + [1, 0]]
        label = "f_%s concurrent %s placement=%s/%s" % (self.case["form"], "".join(assign), info.get("site"), info.get("site2"))
        check(res, label, self.case["form"], ctx.out, assign, orders, ctx.excs)
        if info.get("hit"):
            res.key("conc", self.case["form"], "".join(assign), info.get("site"), info.get("site2"))


class ConstructScenario(object):
    def __init__(self, case):
        self.case = case

    def setup(self):
        ctx = Ctx()
        ctx.ins = [SpyFuture("in%d" % i) for i in range(4)]
        ctx.excs = {}
        ctx.assign = ["V"] * 4
        ctx.order = []
        if self.case["pre"] == "first-done":
            complete(ctx.ins[0], "V", 0, ctx.excs)
            ctx.order.append(0)
        ctx.out = None
        return ctx

    def victim_role(self, ctx):
        return "V"

    def start_victim(self, ctx):
        def build():
            ctx.out = mk(self.case["form"], ctx.ins)
        return ctx.actor("V", build).go()

    def intervene(self, ctx):
        sec = self.case["second"]
        todo = {"complete0": [(0, "V")], "complete1": [(1, "V")], "complete_all": [(i, "V") for i in range(4)],
                "fail1": [(1, "E")], "cancel1": [(1, "C")]}[sec]
        for i, code in todo:
            ctx.assign[i] = code
            if complete(ctx.ins[i], code, i, ctx.excs):
                ctx.order.append(i)

    def finish(self, ctx):
        for i in range(4):
            if complete(ctx.ins[i], ctx.assign[i], i, ctx.excs):
                ctx.order.append(i)

    def oracle(self, ctx, res, info):
        label = "%s placement=%s" % (self.case["name"], info.get("site"))
        if ctx.out is None:
            res.inconclusive.append("%s: the call did not return" % label)
            return
        a = info.get("victim")
        if a is not None and a.error is not None and not isinstance(a.error, instr.DeadlockBroken):
            res.violation("raised/%s/%s" % (self.case["form"], type(a.error).__name__), "%s: the call raised %r" % (label, a.error))
            return
        # an input that fails / is cancelled decides when it is first in completion order; inputs finished before the
        # call are seen in argument order
        check(res, label, self.case["form"], ctx.out, ctx.assign, [list(ctx.order)], ctx.excs)
        if info.get("hit"):
            res.key("construct", self.case["form"], self.case["pre"], self.case["second"], info.get("site"))


class ViewScenario(object):
    """out = f_zip / f_sequence / f_traverse over (f_map(d), f_map(d), x): two threads act on the inputs / the
    output; every call returns, the output is decided by the model of whatever order the inputs ended in."""

    def __init__(self, case):
        self.case = case

    def setup(self):
        F = instr.ME.futures
        ctx = Ctx()
        ctx.d = SpyFuture("d")
        ctx.x = SpyFuture("x")
        ctx.v1 = F.f_map(ctx.d, lambda v: ("v1", v))
        ctx.v2 = F.f_map(ctx.d, lambda v: ("v2", v))
        ctx.out = mk(self.case["form"], [ctx.v1, ctx.v2, ctx.x])
        ctx.e_d = UserErrorA("d")
        ctx.e_x = UserErrorB("x")
        return ctx

    def act(self, ctx, what):
        try:
            if what == "cancel_v1":
                ctx.v1.cancel()
            elif what == "cancel_d":
                ctx.d.cancel()
            elif what == "cancel_out":
                ctx.out.cancel()
            elif what == "complete_d":
                ctx.d.set_result("D")
            elif what == "fail_d":
                ctx.d.set_exception(ctx.e_d)
            elif what == "complete_x":
                ctx.x.set_result("X")
            elif what == "fail_x":
                ctx.x.set_exception(ctx.e_x)
        except cf.InvalidStateError:
            pass

    def victim_role(self, ctx):
        return "V"

    def start_victim(self, ctx):
        return ctx.actor("V", self.act, ctx, self.case["a"]).go()

    def intervene(self, ctx):
        self.act(ctx, self.case["b"])

    def finish(self, ctx):
        for f, v in ((ctx.d, "D"), (ctx.x, "X")):
            if not f.done():
                try:
                    f.set_result(v)
                except cf.InvalidStateError:
                    pass

    def oracle(self, ctx, res, info):
        label = "%s placement=%s" % (self.case["name"], info.get("site"))
        for a in (info.get("victim"), info.get("iact")):
            if a is not None and a.error is not None and not isinstance(a.error, instr.DeadlockBroken):
                res.violation("unexpected-exception/%s" % type(a.error).__name__, "%s: %r" % (label, a.error), tb=getattr(a, "tb", None))
        ins = [outcome(f) for f in (ctx.v1, ctx.v2, ctx.x)]
        o = outcome(ctx.out)
        if o[0] == "pending":
            res.violation("output-pending/views", "%s: every input is finished (%s) but the output is pending" % (label, [outcome_repr(i) for i in ins]))
        elif all(i[0] == "value" for i in ins):
            want = [("v1", "D"), ("v2", "D"), "X"]
            if o[0] == "value" and list(o[1]) != want:
                res.violation("wrong-order/views", "%s: output %s, inputs in argument order are %r" % (label, outcome_repr(o), want))
            elif o[0] == "exc":
                res.violation("wrong-outcome/views", "%s: all inputs succeeded, output is %s" % (label, outcome_repr(o)))
        elif o[0] == "value":
            res.violation("wrong-outcome/views", "%s: output has a value although inputs ended %s" % (label, [outcome_repr(i) for i in ins]))
        elif o[0] == "exc" and not any(i[0] == "exc" and i[1] is o[1] for i in ins):
            res.violation("wrong-outcome/views", "%s: output failed with %r which is no input's exception (%s)" % (label, o[1], [outcome_repr(i) for i in ins]))
        if info.get("hit"):
            res.key("views", self.case["form"], self.case["a"], self.case["b"], info.get("site"))
        res.count("view_outputs_judged")
        res.sample({"form": self.case["form"], "thread_A": self.case["a"], "thread_B": self.case["b"], "placement": info.get("site"),
                    "output": outcome_repr(o), "inputs": [outcome_repr(i) for i in ins]}, limit=1)


def run_case(case, res):
    k = case["kind"]
    rng = random.Random("c15/%s/%s" % (case["seed"], case["name"]))
    if k == "views":
        Sweep(ViewScenario(case), res, "rt", case["name"]).run(case["cap"], rng, per_site=2)
        return
    if k == "construct":
        Sweep(ConstructScenario(case), res, "rt", case["name"]).run(case["cap"], rng, per_site=2)
        return
    if k == "order":
        run_order(case, res)
    elif k == "counts":
        run_counts(case, res)
    elif k == "dup":
        run_dup(case, res)
    elif k == "outcancel":
        run_outcancel(case, res)
    elif k == "traverse_fn":
        run_traverse_fn(case, res)
    elif k == "nested":
        SweepNested(ConcScenario(case), res, "rt", case["name"]).run(None, None, rng, per_site=2, budget=case["budget"])
    else:
        Sweep(ConcScenario(case), res, "rt", case["name"]).run(case["cap"], rng, per_site=3)
