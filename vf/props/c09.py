"""C09 - timeouts fire exactly once, never early, and at the deadline.

TimeoutExecutor over a manual delegate (and f_timeout over spy inputs) in virtual
time.  Every cancel() that reaches the delegate/input future is logged with its
virtual time and thread; the oracle compares them with creation time + timeout.
"""
import gc
import random

from .. import instr, harness
from ..harness import (Sweep, Ctx, ManualExecutor, SpyFuture, call, check_common, begin, end, drive, Recorded,
                       UserErrorA, outcome, outcome_repr)
from ..instr import LOG, TR, LM, Inconclusive

TITLE = "timeouts"
RULE = ("one execution = one TimeoutExecutor (or the shared f_timeout executor) with 1-10 futures whose default/per-call "
        "timeouts, submission times, completion times, running flags and user cancels are generated on a 0.125 s grid, "
        "or one placement of a second action inside the timeout thread's partition/sleep/wake cycle; distinct & non-trivial "
        "= (form, timeline signature | placement site) containing at least one future still pending at its deadline")
REQUIRED = ["line_events", "lock_acquisitions", "vevent_waits", "timers_fired", "clock_reads"]
EPS = 0.02
GRID = 0.125


def cases(tier, seed):
    out = []
    n = 60 if tier == "quick" else 20000
    for i in range(n):
        out.append({"name": "timeout.deadlines/%s/%d" % ("f_timeout" if i % 3 == 2 else "executor", i), "kind": "gen",
                    "form": "f_timeout" if i % 3 == 2 else "executor", "idx": i})
    cap = None
    for trig in ("submit_long", "complete", "timer"):
        for second in ("submit_short", "complete", "user_cancel", "submit_long"):
            out.append({"name": "timeout.sweep/worker/%s|%s" % (trig, second), "kind": "sweep", "victim": "worker",
                        "trigger": trig, "second": second, "cap": cap})
    for vop in ("submit_short", "complete", "user_cancel"):
        out.append({"name": "timeout.sweep/client/%s|timer" % vop, "kind": "sweep", "victim": "client", "trigger": vop,
                    "second": "timer", "cap": cap})
    out.append({"name": "timeout.f_timeout/recreate", "kind": "recreate"})
    for slow in (0.5, 2.0):
        for nearby in (0.3, 1.0):
            out.append({"name": "timeout.slow-submit/%s/%s" % (slow, nearby), "kind": "slowsubmit", "slow": slow, "nearby": nearby})
    for form in ("executor",):
        for what in ("resubmit", "submit_plain"):
            out.append({"name": "timeout.callback/%s/%s" % (form, what), "kind": "tcallback", "form": form, "what": what})
    for form in ("executor", "f_timeout"):
        for cost in (0.25, 0.6, 3.0):
            for first in ("running", "refusing", "pending"):
                out.append({"name": "timeout.slow-cancel/%s/%s/%s" % (form, first, cost), "kind": "slowcancel", "form": form,
                            "cost": cost, "first": first})
    return out


class TW(object):
    """Timeline world."""

    def __init__(self, ctx, form, default=8.0):
        ME = instr.ME
        self.ctx, self.form = ctx, form
        self.t0 = instr.vnow()
        self.futs = []  # dict per future
        if form == "executor":
            self.me = ManualExecutor("me")
            ctx.own(self.me)
            self.ex = ctx.own(ME.Executors.with_timeout(self.me, default))
            self.default = default
        else:
            self.me = None

    def submit(self, timeout=None, running=False, who="H"):
        ME = instr.ME
        i = len(self.futs)
        rec = {"i": i, "created": instr.vnow(), "timeout": timeout, "running": running, "completed_at": None,
               "user_cancel_at": None, "user_cancel_ret": None}
        self.futs.append(rec)
        if self.form == "executor":
            fn = Recorded("job%d" % i, lambda idx: None)
            if timeout is None:
                rec["timeout"] = self.default
                f = call("submit", self.ex.submit, fn, _tag=i)
            else:
                f = call("submit_timeout", self.ex.submit_timeout, timeout, fn, _tag=i)
            k = [k for k, it in enumerate(self.me.items) if it[1] is fn][0]
            rec["spy"] = self.me.fut(k)
            rec["item"] = k
            # the future is created after the delegate accepted the callable: if the harness let time pass
            # while submit() was suspended before that point, the creation time is not earlier than that
            for e in LOG.select("me.submit"):
                if e[4].get("idx") == k and e[4].get("ex") == "me":
                    rec["created"] = max(rec["created"], e[1])
            if running:
                self.me.mark_running(k)
        else:
            spy = SpyFuture("in%d" % i)
            rec["spy"] = spy
            if running:
                spy.set_running_or_notify_cancel()
            f = call("f_timeout", ME.futures.f_timeout, spy, timeout, _tag=i)
        rec["fut"] = f
        rec["created_ret"] = instr.vnow()
        rec["deadline"] = rec["created"] + rec["timeout"]
        return rec

    def complete(self, i, fail=False):
        rec = self.futs[i]
        spy = rec["spy"]
        if spy.done():
            return
        rec["completed_at"] = instr.vnow()
        try:
            if fail:
                rec["value"] = ("exc", None)
                spy.set_exception(UserErrorA("f%d" % i))
            else:
                rec["value"] = ("value", ("r", i))
                spy.set_result(("r", i))
        except Exception:
            rec["completed_at"] = None

    def user_cancel(self, i):
        rec = self.futs[i]
        if rec["fut"].done():
            return
        rec["user_cancel_at"] = instr.vnow()
        rec["user_cancel_ret"] = call("cancel", rec["fut"].cancel, _tag=i)

    def judge(self, res, label, info=None):
        site = info.get("site") if info else None
        nontrivial = False
        # cancel() arrivals per spy, by thread role
        arrivals = {}
        for e in LOG.events:
            if e[3] == "spy.cancel":
                arrivals.setdefault(e[4]["tag"], []).append((e[1], e[2]))
        for rec in self.futs:
            spy = rec["spy"]
            arr = [(t, role) for (t, role) in arrivals.get(spy.tag, []) if role.startswith("W:")]
            d = rec["deadline"]
            done_before = None
            for t in (rec["completed_at"], rec["user_cancel_at"] if rec["user_cancel_ret"] else None):
                if t is not None and (done_before is None or t < done_before):
                    done_before = t
            for (t, role) in arr:
                if t < d - 1e-9:
                    res.violation("early-cancel/%s" % self.form,
                                  "%s: future %d (timeout %.3f, created t0+%.3f) got a timeout cancel() at t0+%.3f, %.3f before its deadline; placement=%s"
                                  % (label, rec["i"], rec["timeout"], rec["created"] - self.t0, t - self.t0, d - t, site))
            d_hi = rec["created_ret"] + rec["timeout"]
            tie = done_before is not None and d - EPS <= done_before <= d_hi + EPS
            if tie:
                continue
            if done_before is not None and done_before < d:
                if arr:
                    res.violation("cancel-after-done/%s" % self.form,
                                  "%s: future %d finished at t0+%.3f before its deadline t0+%.3f but got %d timeout cancel()"
                                  % (label, rec["i"], done_before - self.t0, d - self.t0, len(arr)))
                # outcome preserved
                if rec["completed_at"] is not None and rec["completed_at"] == done_before:
                    o = outcome(rec["fut"])
                    want = rec.get("value")
                    if want and o[0] != want[0]:
                        res.violation("outcome-not-preserved/%s" % self.form,
                                      "%s: future %d completed before its deadline with %s but shows %s" % (label, rec["i"], want[0], outcome_repr(o)))
                continue
            # still pending at its deadline (if the run went past it)
            if instr.vnow() < d + EPS:
                continue
            nontrivial = True
            if len(arr) == 0:
                res.violation("no-cancel-at-deadline/%s" % self.form,
                              "%s: future %d (timeout %.3f, deadline t0+%.3f) never received the timeout cancel() although still pending (now t0+%.3f); placement=%s"
                              % (label, rec["i"], rec["timeout"], d - self.t0, instr.vnow() - self.t0, site))
            elif len(arr) > 1:
                res.violation("repeated-cancel/%s" % self.form,
                              "%s: future %d received %d timeout cancel() attempts at %s" % (label, rec["i"], len(arr), [round(t - self.t0, 3) for t, _ in arr]))
            elif arr[0][0] > rec["created_ret"] + rec["timeout"] + EPS:
                res.violation("late-cancel/%s" % self.form,
                              "%s: future %d (deadline t0+%.3f) was cancelled only at t0+%.3f (%.3f late); placement=%s"
                              % (label, rec["i"], d - self.t0, arr[0][0] - self.t0, arr[0][0] - d, site))
            if not rec["running"] and len(arr) >= 1 and not rec["fut"].cancelled() and done_before is None:
                res.violation("not-cancelled/%s" % self.form, "%s: future %d pending (not running) at deadline but is %s afterwards"
                              % (label, rec["i"], outcome_repr(outcome(rec["fut"]))))
        res.count("futures_judged", len(self.futs))
        return nontrivial


def run_gen(case, res):
    rng = random.Random("c09/%s/%s" % (case["seed"], case["idx"]))
    begin("vt")
    ctx = Ctx()
    try:
        w = TW(ctx, case["form"], default=rng.choice([1.0, 2.5, 8.0]))
        n = rng.randint(1, 10)
        timeline = []
        for i in range(n):
            ts = rng.randrange(0, 40) * GRID
            T = None if (case["form"] == "executor" and rng.random() < 0.4) else rng.choice([0.25, 0.5, 1.0, 2.0, 3.75, 6.0])
            running = rng.random() < 0.25
            timeline.append((ts, 0, "submit", i, T, running))
        timeline.sort()
        # remap ids by submission order
        subs = [ev for ev in timeline]
        timeline = []
        for new_i, (ts, _, _, _, T, running) in enumerate(subs):
            timeline.append((ts, 0, "submit", new_i, T, running))
            Teff = T if T is not None else w.default
            r = rng.random()
            if r < 0.35:
                tc = ts + rng.choice([0.3, 0.6]) * Teff
                timeline.append((round(tc / GRID) * GRID + 0.0625, 1, "complete", new_i, rng.random() < 0.3, None))
            elif r < 0.5:
                tc = ts + Teff + rng.choice([0.5, 1.5])
                timeline.append((tc + 0.0625, 1, "complete", new_i, False, None))
            elif r < 0.6:
                tc = ts + rng.choice([0.4, 0.8]) * Teff
                timeline.append((round(tc / GRID) * GRID + 0.0625, 1, "user_cancel", new_i, None, None))
        timeline.sort(key=lambda e: (e[0], e[1]))
        nthreads = rng.randint(1, 3)
        for ev in timeline:
            t = ev[0]
            instr.advance(until=w.t0 + t)
            if ev[2] == "submit":
                a = ctx.actor("S%d" % (ev[3] % nthreads), w.submit, ev[4], ev[5]).go()
                if drive([a], use_time=False) != "ok":
                    raise Inconclusive("submit did not return")
                if a.error is not None:
                    res.violation("unexpected-exception/submit/%s" % type(a.error).__name__, "submit raised %r" % (a.error,))
            elif ev[2] == "complete":
                w.complete(ev[3], ev[4])
            else:
                w.user_cancel(ev[3])
        try:
            instr.advance(200.0)
            n_before = len(LOG.select("spy.cancel"))
            instr.advance(2000.0)
            if len(LOG.select("spy.cancel")) != n_before:
                res.violation("cancel-long-after/%s" % case["form"], "cancel() attempts keep arriving long after every deadline")
        except Inconclusive as e:
            # the timeout thread never comes to rest (thousands of zero-length waits): judge what was logged
            if len(LOG.select("spy.cancel")) > 50 * max(1, len(w.futs)):
                res.violation("repeated-cancel/%s" % case["form"], "timeout thread spins: %d cancel() attempts for %d futures (%s)"
                              % (len(LOG.select("spy.cancel")), len(w.futs), e))
                res.execs += 1
                return
            raise
        res.execs += 1
        check_common(res)
        label = case["name"]
        nt = w.judge(res, label)
        sig = "|".join("%s%d@%.3f" % (e[2][0], e[3], e[0]) for e in timeline)
        if nt:
            res.key(case["form"], sig)
        res.sample({"form": case["form"], "timeline": sig,
                    "cancel_arrivals": [(e[4]["tag"], round(e[1] - w.t0, 3), e[2]) for e in LOG.select("spy.cancel")][:12]}, limit=1)
    finally:
        end(ctx)


class TScenario(object):
    def __init__(self, case):
        self.case = case

    def setup(self):
        ctx = Ctx()
        w = TW(ctx, "executor", default=8.0)
        ctx.w = w
        w.submit(6.0)
        w.submit(3.0, running=True)
        instr.advance(0.5)
        return ctx

    def victim_role(self, ctx):
        if self.case["victim"] == "worker":
            return [t for t in instr.TRACKED if t.vf_started][-1].vf_role
        return "V"

    def produce(self, ctx, what):
        w = ctx.w
        if what == "submit_long":
            w.submit(20.0)
        elif what == "submit_short":
            w.submit(0.25)
        elif what == "complete":
            w.complete(0)
        elif what == "user_cancel":
            w.user_cancel(0)
        elif what == "timer":
            from .c04 import fire_next_timer
            fire_next_timer()

    def start_victim(self, ctx):
        return ctx.actor("T" if self.case["victim"] == "worker" else "V", self.produce, ctx, self.case["trigger"]).go()

    def intervene(self, ctx):
        self.produce(ctx, self.case["second"])

    def finish(self, ctx):
        instr.advance(100.0)

    def oracle(self, ctx, res, info):
        label = self.case["name"]
        for a in (info.get("victim"), info.get("iact")):
            if a is not None and a.error is not None:
                res.violation("unexpected-exception/%s" % type(a.error).__name__, "%s: %r" % (label, a.error), tb=getattr(a, "tb", None))
        ctx.w.judge(res, label, info)
        if info.get("hit"):
            res.key("sweep", label, info.get("site"))


def run_recreate(case, res):
    """f_timeout's shared executor is weakly referenced: let it be collected and
    re-created between uses."""
    ME = instr.ME
    for rounds in (1, 2, 3):
        begin("vt")
        ctx = Ctx()
        try:
            w = TW(ctx, "f_timeout")
            for r in range(rounds):
                a = w.submit(1.0)
                b = w.submit(0.5, running=True)
                instr.advance(0.25)
                w.complete(a["i"])
                instr.advance(5.0)
                # drop every reference so that the shared executor can be collected
                for rec in w.futs:
                    rec["fut"] = rec["fut"]
                gc.collect()
                instr.advance(1.0)
            res.execs += 1
            check_common(res)
            keep = list(w.futs)
            w.judge(res, "recreate/%d" % rounds)
            res.key("recreate", rounds)
        finally:
            end(ctx)


def run_slowsubmit(case, res):
    """A submit() on the executor takes time inside the delegate's submit() (a bounded queue, I/O): the deadlines of
    futures already under way still pass on time."""
    begin("vt")
    ctx = Ctx()
    try:
        w = TW(ctx, "executor", default=50.0)
        a = w.submit(case["nearby"])
        b = w.submit(case["nearby"] + 0.05)
        slow = {"on": True}

        def auto(me, idx):
            if slow["on"]:
                slow["on"] = False
                instr.pass_time(case["slow"])
        w.me.auto = auto
        act = ctx.actor("S", w.submit, 5.0).go()
        if drive([act], use_time=False) != "ok" and not LM.deadlocks:
            raise Inconclusive("slow submit did not return: " + instr.describe_threads())
        w.me.auto = None
        instr.advance(10.0)
        res.execs += 1
        check_common(res)
        if w.judge(res, case["name"]):
            res.key("slowsubmit", case["slow"], case["nearby"])
        res.sample({"delegate_submit_takes": case["slow"], "timeouts_of_earlier_futures": [case["nearby"], case["nearby"] + 0.05],
                    "cancel_arrivals": [(e[4]["tag"], round(e[1] - w.t0, 3)) for e in LOG.select("spy.cancel")]}, limit=1)
    finally:
        end(ctx)


def run_tcallback(case, res):
    """A done-callback of a future that timed out uses the executor again (re-submits with a new timeout): it runs on
    the timeout thread, inside the cancel the thread has just delivered.  Later deadlines are still served."""
    begin("vt")
    ctx = Ctx()
    try:
        w = TW(ctx, "executor", default=50.0)
        a = w.submit(1.0)
        b = w.submit(2.0)
        extra = []

        def cb(_f):
            if case["what"].startswith("resubmit"):
                extra.append(w.submit(1.0, who="cb"))
            elif case["what"] == "submit_plain":
                extra.append(w.submit(None, who="cb"))
            if "cancel_other" in case["what"]:
                b["fut"].cancel()
        a["fut"].add_done_callback(cb)
        try:
            instr.advance(10.0)
        except instr.DeadlockBroken:
            pass
        res.execs += 1
        check_common(res, deadlock_suffix="@timeout.callback/%s" % case["what"])
        if not LM.deadlocks:
            if not extra:
                res.inconclusive.append("%s: the callback never ran" % case["name"])
            if "cancel_other" in case["what"]:
                b["user_cancel_at"], b["user_cancel_ret"] = w.t0 + 1.0, True
            if w.judge(res, case["name"]):
                res.key("tcallback", case["what"])
        res.sample({"callback_does": case["what"], "cancel_arrivals": [(e[4]["tag"], round(e[1] - w.t0, 3)) for e in LOG.select("spy.cancel")]}, limit=1)
    finally:
        end(ctx)


def run_slowcancel(case, res):
    """The cancel() of an overdue future takes time (and may be refused); futures with later deadlines are still
    cancelled at their own deadline, not later by the time the earlier cancel took."""
    cost = case["cost"]
    for later in ([1.0 + cost + 0.4], [1.0 + cost + 0.4, 1.0 + cost + 0.4], [1.0 + cost + 0.3, 1.0 + cost + 2.0, 9.0]):
        begin("vt")
        ctx = Ctx()
        try:
            w = TW(ctx, case["form"], default=50.0)
            a = w.submit(1.0, running=(case["first"] == "running"))
            a["spy"].cancel_cost = cost
            if case["first"] == "refusing":
                a["spy"].refuse_cancels = 1
                a["running"] = True  # (for the judge: its cancel() may legitimately be refused)
            for T in later:
                w.submit(T)
            instr.advance(30.0)
            res.execs += 1
            check_common(res)
            # while the first cancel() was in progress nobody could be cancelled: no deadline lies in that window
            if w.judge(res, case["name"]):
                res.key("slowcancel", case["form"], case["first"], cost, len(later))
            res.count("slow_cancels", len([c for c in a["spy"].cancel_calls]))
            res.sample({"form": case["form"], "first_future": case["first"], "cancel_takes": cost, "later_timeouts": later,
                        "cancel_arrivals": [(e[4]["tag"], round(e[1] - w.t0, 3)) for e in LOG.select("spy.cancel")]}, limit=1)
        finally:
            end(ctx)


def run_case(case, res):
    if case["kind"] == "slowcancel":
        return run_slowcancel(case, res)
    if case["kind"] == "tcallback":
        return run_tcallback(case, res)
    if case["kind"] == "slowsubmit":
        return run_slowsubmit(case, res)
    if case["kind"] == "gen":
        run_gen(case, res)
    elif case["kind"] == "recreate":
        run_recreate(case, res)
    else:
        rng = random.Random("c09/%s/%s" % (case["seed"], case["name"]))
        Sweep(TScenario(case), res, "vt", case["name"]).run(case["cap"], rng, per_site=2)
