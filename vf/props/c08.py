"""C08 - poll: one poll at a time, exact descriptor set, first yield wins, prompt polls.

PollExecutor over a manual delegate in virtual time.  The poll function and the
cancel function are recorded wrappers driven by per-future scripts; the oracle is
the interval model of DESIGN.md section 5 (C08) over the boundary log."""
import random

from .. import instr, harness
from ..harness import (Sweep, SweepNested, Ctx, ManualExecutor, call, check_common, begin, end, drive, Recorded,
                       UserErrorA, UserErrorB, OtherError, outcome, outcome_repr)
from ..instr import LOG, TR, LM, Inconclusive

TITLE = "poll"
RULE = ("one execution = one PollExecutor over a manual delegate with 1-8 futures, a generated timeline of delegate "
        "completions / failures / cancels / notify() on a 0.125 s grid and per-future yield scripts (value, exception, "
        "double yield, raising call), or one placement of a second action inside the poll thread's snapshot/wait/clear path; "
        "distinct & non-trivial = (timeline+scripts signature | placement site) with at least one poll call that was shown a descriptor")
REQUIRED = ["line_events", "lock_acquisitions", "vevent_waits", "timers_fired"]
EPS = 0.02
GRID = 0.125


def cases(tier, seed):
    out = []
    n = 80 if tier == "quick" else 20000
    for i in range(n):
        out.append({"name": "poll.model/%d" % i, "kind": "gen", "idx": i})
    out.append({"name": "poll.cancel-table", "kind": "ctable"})
    out.append({"name": "poll.cancel-table-falsy", "kind": "cfalsy"})
    for what in ("notify", "complete_other", "notify+complete_other"):
        for answer in (True, False):
            out.append({"name": "poll.slow-cancel-fn/%s/%s" % (what, answer), "kind": "slowcfn", "what": what, "answer": answer})
    for trig in ("complete", "notify", "timer"):
        for second in ("complete", "cancel_same", "fail"):
            out.append({"name": "poll.sweep-raise/worker/%s|%s" % (trig, second), "kind": "sweep", "victim": "worker", "trigger": trig,
                        "second": second, "cap": 30 if tier == "quick" else None, "raise_at": [1, 2, 3]})
    # several futures in the polling stage at once; the poll function raises (or yields for the first) while a
    # client cancels one of the futures it was shown
    for trig in ("notify", "timer", "complete"):
        for second in ("cancel0", "cancel1", "cancel2"):
            out.append({"name": "poll.multi-raise/worker/%s|%s" % (trig, second), "kind": "sweep", "victim": "worker", "trigger": trig,
                        "second": second, "cap": None, "raise_at": [1, 2, 3], "multi": True})
    # suspension points at instruction boundaries: a client's cancel() scanning the registrations | the poll thread
    for vict, second in (("cancel2", "notify"), ("cancel1", "notify"), ("cancel2", "timer"), ("cancel0", "notify"), ("cancel2", "complete"),
                         ("cancel3", "complete3"), ("cancel3", "notify")):
        out.append({"name": "poll.multi-instr/client/%s|%s" % (vict, second), "kind": "sweep", "victim": "client", "trigger": vict,
                    "second": second, "cap": None, "multi": True, "gran": "instr"})
    for trig, second in (("notify", "cancel2"), ("notify", "cancel1"), ("timer", "cancel2"), ("complete", "cancel2")):
        out.append({"name": "poll.multi-instr/worker/%s|%s" % (trig, second), "kind": "sweep", "victim": "worker", "trigger": trig,
                    "second": second, "cap": 60 if tier == "quick" else None, "multi": True, "gran": "instr"})
    # both sides suspended: a client's cancel() at i, the poll thread (woken by notify / timer) at j, the client released first
    for vict in ("cancel0", "cancel1", "cancel2"):
        for second in ("notify", "timer"):
            parts = 2 if tier == "quick" else 8
            for part in range(parts):
                out.append({"name": "poll.nested/client/%s|%s/%d" % (vict, second, part), "kind": "nested", "victim": "client", "trigger": vict,
                            "second": second, "multi": True, "slice": [part, parts], "cap_a": 16 if tier == "quick" else None,
                            "cap_b": 24 if tier == "quick" else None})
    cap = 22 if tier == "quick" else None
    for victim, trig in (("worker", "complete"), ("worker", "notify"), ("worker", "timer"), ("client", "complete"),
                         ("client", "cancel"), ("client", "notify")):
        for second in ("complete", "cancel", "cancel_same", "notify", "timer", "fail"):
            if victim == "worker" and second == "timer":
                continue
            out.append({"name": "poll.sweep/%s/%s|%s" % (victim, trig, second), "kind": "sweep", "victim": victim,
                        "trigger": trig, "second": second, "cap": cap})
    return out


class PW(object):
    def __init__(self, ctx, interval, scripts, cancel_script, poll_raise_at=None, next_sleep=None):
        ME = instr.ME
        self.ctx = ctx
        self.me = ManualExecutor("me")
        ctx.own(self.me)
        self.scripts = scripts  # per future: list of actions per sighting: None | ('v',) | ('e',) | ('vv',) | ('ve',)
        self.cancel_script = cancel_script  # per future: True | False | 'raise'
        self.poll_raise_at = poll_raise_at or set()
        self.next_sleep = next_sleep
        self.sightings = {}
        self.poll_exc = {}
        self.consulted_done = []
        self.cancel_hook = None  # what the user's cancel function does besides answering (e.g. a slow remote call)
        self.first_yield = {}
        self.poll_fn = Recorded("poll", self._poll)
        self.cancel_fn = Recorded("cancel_fn", self._cancel)
        self.interval = interval
        self.ex = ctx.own(ME.Executors.with_poll(self.me, self.poll_fn, self.cancel_fn, interval))
        self.worker_role = [t for t in instr.TRACKED if t.vf_started][-1].vf_role
        self.futs = []
        self.t0 = instr.vnow()

    def _poll(self, idx, descriptors):
        ids = []
        for d in descriptors:
            r = d.result
            ids.append(r[1] if isinstance(r, tuple) and len(r) == 2 and r[0] == "d" else ("?", r))
        LOG.add("poll.shown", idx=idx, ids=list(ids))
        for d, i in zip(descriptors, ids):
            if not isinstance(i, int):
                continue
            n = self.sightings.get(i, 0)
            self.sightings[i] = n + 1
            sc = self.scripts[i]
            act = sc[n] if n < len(sc) else None
            if act is None:
                continue
            for ch in act:
                if ch == "v":
                    val = ("y", i, idx, ch, len(self.first_yield.get(i, [])))
                    self._yield(i, idx, "value", val, d.yield_result, val)
                else:
                    e = UserErrorA("yield%d@%d" % (i, idx))
                    self._yield(i, idx, "exc", e, d.yield_exception, e)
        if idx in self.poll_raise_at:
            e = OtherError("poll call %d" % idx)
            self.poll_exc[idx] = e
            raise e
        return self.next_sleep

    def _yield(self, i, idx, kind, payload, fn, arg):
        s = LOG.add("yield", fut=i, poll=idx, kind=kind)
        self.first_yield.setdefault(i, []).append((s, kind, payload, idx))
        fn(arg)
        LOG.add("yield.ret", fut=i, poll=idx)

    def _cancel(self, idx, result):
        i = result[1] if isinstance(result, tuple) and len(result) == 2 else None
        done = None
        if isinstance(i, int) and i < len(self.futs):
            done = self.futs[i]["fut"].done()
        LOG.add("cancel_fn.arg", fut=i, result=result, done=done)
        if done:
            self.consulted_done.append(i)
        how = self.cancel_script.get(i, True)
        if self.cancel_hook is not None:
            self.cancel_hook(i)
        if how == "raise":
            raise UserErrorB("cancel_fn %s" % (i,))
        return how

    # ---- actions
    def submit(self):
        i = len(self.futs)
        fn = Recorded("job%d" % i, lambda idx: None)
        f = call("submit", self.ex.submit, fn, _tag=i)
        rec = {"i": i, "fut": f, "item": len(self.me.items) - 1, "delegate": None, "cancels": [], "cb": []}
        f.add_done_callback(lambda _f: rec["cb"].append((LOG.add("cb", fut=i), instr.vnow())))
        self.futs.append(rec)
        return rec

    def complete(self, i, how="ok"):
        rec = self.futs[i]
        spy = self.me.fut(rec["item"])
        if spy.done():
            return
        if how == "ok":
            rec["delegate"] = "ok"
            rec["elig_inv"] = LOG.add("elig.inv", fut=i)
            rec["elig_t"] = instr.vnow()
            self.me.complete(rec["item"], ("d", i))
            rec["elig_ret"] = LOG.add("elig.ret", fut=i)
            rec["elig_t"] = instr.vnow()  # time passes if the harness lets a timer fire meanwhile
        elif how == "fail":
            rec["delegate"] = "fail"
            rec["dexc"] = UserErrorB("delegate%d" % i)
            self.me.fail(rec["item"], rec["dexc"])
        else:
            rec["delegate"] = "cancelled"
            spy.cancel()

    def cancel(self, i):
        rec = self.futs[i]
        inv = LOG.add("ucancel.inv", fut=i)
        t = instr.vnow()
        try:
            r = call("cancel", rec["fut"].cancel, _tag=i)
        except Exception as e:
            rec["cancels"].append((inv, LOG.add("ucancel.ret", fut=i), "raised:%s" % type(e).__name__, t))
            raise
        rec["cancels"].append((inv, LOG.add("ucancel.ret", fut=i, value=r), r, t))

    def notify(self):
        inv = LOG.add("notify.inv")
        self.ex.notify()
        LOG.add("notify.ret", t=instr.vnow())

    # ---- oracle
    def judge(self, res, label, info=None):
        site = info.get("site") if info else None
        evs = LOG.events
        where = "%s placement=%s" % (label, site)
        # poll calls
        calls = []
        cur_wake = 0
        wake_t = None
        for e in evs:
            s, vt, role, kind, d = e
            if kind == "wake" and role == self.worker_role:
                cur_wake = s
            elif kind == "fn.start" and d.get("fn") == "poll":
                calls.append({"idx": d["idx"], "start": s, "start_t": vt, "wake": cur_wake, "role": role, "end": None, "ids": None})
            elif kind == "poll.shown":
                calls[-1]["ids"] = d["ids"] if calls and calls[-1]["idx"] == d["idx"] else None
                for c in calls:
                    if c["idx"] == d["idx"]:
                        c["ids"] = d["ids"]
            elif kind == "fn.end" and d.get("fn") == "poll":
                for c in calls:
                    if c["idx"] == d["idx"]:
                        c["end"] = s
                        c["raised"] = "exc" in d
        # one at a time
        for a, b in zip(calls, calls[1:]):
            if a["end"] is None or b["start"] < a["end"]:
                res.violation("concurrent-poll", "%s: poll call %d started before call %d ended" % (where, b["idx"], a["idx"]))
        roles = set(c["role"] for c in calls)
        # resolving calls per future
        resolve_inv = {}
        resolve_ret = {}
        for i, ys in self.first_yield.items():
            s0 = ys[0][0]
            resolve_inv[i] = s0
            for e in evs:
                if e[3] == "yield.ret" and e[4]["fut"] == i and e[0] > s0:
                    resolve_ret[i] = e[0]
                    break
        for rec in self.futs:
            for (inv, ret, r, t) in rec["cancels"]:
                if r is True:
                    i = rec["i"]
                    if i not in resolve_inv or inv < resolve_inv[i]:
                        resolve_inv[i] = min(inv, resolve_inv.get(i, inv))
                    resolve_ret[i] = min(ret, resolve_ret.get(i, ret))
        # a raising poll call resolves everything it was shown
        for c in calls:
            if c.get("raised") and c["ids"]:
                for i in c["ids"]:
                    if isinstance(i, int):
                        resolve_inv[i] = min(resolve_inv.get(i, c["start"]), c["start"])
                        if c["end"]:
                            resolve_ret[i] = min(resolve_ret.get(i, c["end"]), c["end"])
        shown_any = False
        for c in calls:
            ids = c["ids"] or []
            if ids:
                shown_any = True
            bad = [x for x in ids if not isinstance(x, int)]
            if bad:
                res.violation("descriptor/wrong-result", "%s: poll call %d got descriptor(s) whose result is not the delegate's: %s" % (where, c["idx"], bad))
            if len(set(ids)) != len(ids):
                res.violation("descriptor/duplicate", "%s: poll call %d was shown %s" % (where, c["idx"], ids))
            for rec in self.futs:
                i = rec["i"]
                elig = rec["delegate"] == "ok"
                if i in ids:
                    if not elig or rec["elig_inv"] > c["start"]:
                        res.violation("descriptor/not-eligible", "%s: poll call %d was shown future %d whose delegate had not finished successfully (%s)"
                                      % (where, c["idx"], i, rec["delegate"]))
                    elif i in resolve_ret and resolve_ret[i] < c["wake"]:
                        res.violation("descriptor/already-resolved", "%s: poll call %d was shown future %d although its resolving call had returned before the poll thread woke up"
                                      % (where, c["idx"], i))
                else:
                    if elig and rec["elig_ret"] < c["wake"] and not (i in resolve_inv and resolve_inv[i] < c["start"]):
                        res.violation("descriptor/missing", "%s: poll call %d (woke at seq %d) was not shown future %d whose delegate finished at seq %d and which is unresolved"
                                      % (where, c["idx"], c["wake"], i, rec["elig_ret"]))
        # promptness: newly eligible future -> a poll containing it at the same virtual time
        for rec in self.futs:
            i = rec["i"]
            if rec["delegate"] != "ok":
                continue
            first = [c for c in calls if c["ids"] and i in c["ids"]]
            resolved_otherwise = i in resolve_inv and (not first or resolve_inv[i] < first[0]["start"])
            if not first:
                if not resolved_otherwise and instr.vnow() > rec["elig_t"] + EPS:
                    res.violation("prompt/never-polled", "%s: future %d became eligible at t0+%.3f and was never shown to the poll function"
                                  % (where, i, rec["elig_t"] - self.t0))
                continue
            if first[0]["start_t"] > rec["elig_t"] + EPS and not resolved_otherwise:
                res.violation("prompt/late-poll", "%s: future %d became eligible at t0+%.3f but was first polled at t0+%.3f (interval %.3f)"
                              % (where, i, rec["elig_t"] - self.t0, first[0]["start_t"] - self.t0, self.interval))
        for e in evs:
            if e[3] == "notify.ret":
                after = [c for c in calls if c["start"] > e[0] or (c["wake"] and c["start"] > e[0])]
                inv = [x for x in evs if x[3] == "notify.inv" and x[0] < e[0]][-1][0]
                ok = any(c["start"] > inv and c["start_t"] <= e[1] + EPS for c in calls)
                if not ok and instr.vnow() > e[1] + EPS:
                    res.violation("prompt/notify-ignored", "%s: notify() at t0+%.3f did not produce a poll at that time" % (where, e[1] - self.t0))
        # outcomes
        for rec in self.futs:
            i = rec["i"]
            o = outcome(rec["fut"])
            f = rec["fut"]
            cands = []  # (seq, kind, payload)
            for (s, kind, payload, idx) in self.first_yield.get(i, [])[:1]:
                cands.append((s, kind, payload))
            for c in calls:
                if c.get("raised") and c["ids"] and i in c["ids"]:
                    cands.append((c["end"], "exc", self.poll_exc.get(c["idx"])))
            for (inv, ret, r, t) in rec["cancels"]:
                if r is True:
                    cands.append((inv, "cancelled", None))
            if rec["delegate"] == "fail":
                cands.append((0, "exc", rec["dexc"]))
            if rec["delegate"] == "cancelled":
                cands.append((0, "cancelled", None))
            cands.sort(key=lambda x: x[0])
            if not cands:
                if o[0] != "pending":
                    res.violation("outcome/unexpected", "%s: future %d is %s although nothing resolved it" % (where, i, outcome_repr(o)))
                continue
            # the first resolving action wins; a concurrent cancel may legitimately win against an
            # overlapping yield, so accept any candidate that is not strictly preceded by another's return
            acceptable = []
            first_seq = cands[0][0]
            for (s, kind, payload) in cands:
                acceptable.append((kind, payload))
            k0, p0 = cands[0][1], cands[0][2]
            got_ok = False
            for (kind, payload) in acceptable[:1] + ([a for a in acceptable[1:] if a[0] == "cancelled" or k0 == "cancelled"]):
                if kind == "cancelled" and o[0] == "cancelled":
                    got_ok = True
                elif kind == "exc" and o[0] == "exc" and o[1] is payload:
                    got_ok = True
                elif kind == "value" and o == ("value", payload):
                    got_ok = True
            if o[0] == "pending":
                res.violation("outcome/pending", "%s: future %d still pending although %s resolved it" % (where, i, k0))
            elif not got_ok:
                res.violation("outcome/not-first-yield", "%s: future %d has %s, first resolving action was %s %r"
                              % (where, i, outcome_repr(o), k0, p0))
            if o[0] != "pending" and len(rec["cb"]) != 1:
                res.violation("callback-count/%d" % len(rec["cb"]), "%s: future %d done-callback ran %d times" % (where, i, len(rec["cb"])))
        # cancel function
        for cidx, c in enumerate(self.cancel_fn.calls):
            arg = c["args"][0]
            i = arg[1] if isinstance(arg, tuple) and len(arg) == 2 and arg[0] == "d" else None
            if i is None or i >= len(self.futs):
                res.violation("cancel-fn/wrong-arg", "%s: cancel function called with %r (not a delegate result)" % (where, arg))
                continue
            rec = self.futs[i]
            if rec["delegate"] != "ok" or rec["elig_inv"] > c["start"]:
                res.violation("cancel-fn/not-polling", "%s: cancel function consulted for future %d which is not in the polling stage" % (where, i))
        for i in self.consulted_done:
            res.violation("cancel-fn/after-resolved", "%s: cancel function consulted for future %d which was already done (%s) when the "
                          "cancel function was called" % (where, i, outcome_repr(outcome(self.futs[i]["fut"]))))
        for rec in self.futs:
            i = rec["i"]
            how = self.cancel_script.get(i, True)
            for (inv, ret, r, t) in rec["cancels"]:
                if isinstance(r, str):
                    res.violation("unexpected-exception/cancel/%s" % r.split(":")[1], "%s: cancel() of future %d %s" % (where, i, r))
                    continue
                polling = rec["delegate"] == "ok" and rec["elig_ret"] < inv and not (i in resolve_ret and resolve_ret[i] < inv)
                consulted = [c for c in self.cancel_fn.calls if c["start"] > inv and c["end"] < ret]
                if polling and how is not True and r is True:
                    res.violation("cancel-fn/veto-ignored", "%s: cancel() of future %d returned True although the cancel function %s"
                                  % (where, i, "raised" if how == "raise" else "returned False"))
                if polling and how is not True and rec["fut"].cancelled():
                    res.violation("cancel-fn/veto-ignored", "%s: future %d is cancelled although the cancel function vetoed" % (where, i))
                if (rec["delegate"] == "ok" and rec["elig_inv"] < inv and how is not True and r is True
                        and not (i in resolve_ret and resolve_ret[i] < inv)):
                    res.violation("cancel-fn/veto-bypassed",
                                  "%s: cancel() of future %d returned True although its delegate had already finished successfully "
                                  "and the cancel function (which vetoes) was %s" % (where, i, "consulted" if consulted else "never consulted"))
        res.count("poll_calls", len(calls))
        res.count("poll_calls_with_descriptors", sum(1 for c in calls if c["ids"]))
        res.count("cancel_fn_calls", len(self.cancel_fn.calls))
        return shown_any


def gen_world(ctx, rng):
    n = rng.randint(1, 8)
    scripts = []
    for i in range(n):
        sc = []
        for k in range(rng.choice([1, 1, 2, 3])):
            sc.append(None)
        sc[-1] = rng.choice(["v", "v", "e", "vv", "ve", "ev"])
        if rng.random() < 0.3:
            sc = [rng.choice(["v", "e"])]
        scripts.append(sc)
    cancel_script = {i: rng.choice([True, True, False, "raise"]) for i in range(n)}
    raise_at = set(k for k in range(1, 12) if rng.random() < 0.07)
    w = PW(ctx, rng.choice([1.0, 5.0]), scripts, cancel_script, raise_at, rng.choice([None, None, 2.0, "x"]))
    return w, n


def run_gen(case, res):
    rng = random.Random("c08/%s/%s" % (case["seed"], case["idx"]))
    begin("vt")
    ctx = Ctx()
    try:
        w, n = gen_world(ctx, rng)
        timeline = []
        for i in range(n):
            ts = rng.randrange(0, 16) * GRID
            timeline.append((ts, 0, "submit", i))
        timeline.sort()
        tl = []
        for new_i, (ts, _, _, _) in enumerate(timeline):
            tl.append((ts, 0, "submit", new_i, None))
            r = rng.random()
            tc = ts + rng.randrange(1, 24) * GRID + 0.0625
            if r < 0.7:
                tl.append((tc, 1, "complete", new_i, "ok"))
            elif r < 0.8:
                tl.append((tc, 1, "complete", new_i, "fail"))
            elif r < 0.88:
                tl.append((tc, 1, "complete", new_i, "cancel"))
            if rng.random() < 0.3:
                tl.append((ts + rng.randrange(1, 40) * GRID + 0.03125, 2, "cancel", new_i, None))
        for _ in range(rng.choice([0, 0, 1, 2])):
            tl.append((rng.randrange(1, 40) * GRID + 0.09375, 3, "notify", None, None))
        tl.sort(key=lambda e: (e[0], e[1]))
        for ev in tl:
            instr.advance(until=w.t0 + ev[0])
            if LM.deadlocks:
                break
            if ev[2] == "submit":
                w.submit()
            elif ev[2] == "complete":
                w.complete(ev[3], ev[4])
            elif ev[2] == "cancel":
                try:
                    w.cancel(ev[3])
                except Exception:
                    pass
            else:
                w.notify()
        instr.advance(30.0)
        res.execs += 1
        check_common(res)
        if LM.deadlocks:
            return
        sig = "|".join("%s%s@%.3f" % (e[2][0:2], e[3], e[0]) for e in tl) + "/" + str(w.scripts)
        if w.judge(res, case["name"]):
            res.key("gen", sig)
        res.sample({"interval": w.interval, "yield_scripts": w.scripts, "timeline": [(e[2], e[3], e[0]) for e in tl],
                    "poll_calls": [(e[4]["idx"], e[4]["ids"], round(e[1] - w.t0, 3)) for e in LOG.select("poll.shown")][:14]}, limit=1)
    finally:
        end(ctx)


class PScenario(object):
    def __init__(self, case):
        self.case = case

    def setup(self):
        ctx = Ctx()
        scripts = [[None, "v"], ["v"], [None, None, "e"], ["v"]]
        multi = self.case.get("multi")
        if multi:
            # futures 0..2 are in the polling stage and have been shown once; 0 yields at its second sighting
            scripts = [[None, "v"], [None, None, None, "v"], [None, None, None, None, "v"], ["v"]]
            w = PW(ctx, 5.0, scripts, {0: True, 1: True, 2: False, 3: True})
        else:
            w = PW(ctx, 5.0, scripts, {0: True, 1: False, 2: True, 3: True}, set(self.case.get("raise_at") or ()))
        ctx.w = w
        for _ in range(4):
            w.submit()
        w.complete(0)
        if multi:
            w.complete(1)
            w.complete(2)
        instr.advance(0.25)
        if multi and self.case.get("raise_at"):
            # the next poll calls (the ones the trigger causes) raise
            n = len(w.poll_fn.calls)
            w.poll_raise_at = set([n, n + 1])
        return ctx

    def victim_role(self, ctx):
        return ctx.w.worker_role if self.case["victim"] == "worker" else "V"

    def produce(self, ctx, what, alt=False):
        w = ctx.w
        if what == "complete":
            for rec in w.futs:
                if rec["delegate"] is None:
                    if alt:
                        alt = False
                        continue
                    w.complete(rec["i"])
                    break
        elif what == "complete3":
            w.complete(3)
        elif what == "fail":
            for rec in reversed(w.futs):
                if rec["delegate"] is None:
                    w.complete(rec["i"], "fail")
                    break
        elif what in ("cancel0", "cancel1", "cancel2", "cancel3"):
            # (3: its delegate is still pending - the cancel overlaps the hand-over to the polling stage)
            w.cancel(int(what[-1]))
        elif what == "cancel":
            w.cancel(0)
        elif what == "cancel_same":
            # the future whose delegate is being / was last completed
            done = [rec for rec in w.futs if rec["delegate"] == "ok"]
            w.cancel(done[-1]["i"] if done else 1)
        elif what == "notify":
            w.notify()
        elif what == "timer":
            from .c04 import fire_next_timer
            fire_next_timer()

    def start_victim(self, ctx):
        return ctx.actor("T" if self.case["victim"] == "worker" else "V", self.produce, ctx, self.case["trigger"]).go()

    def intervene(self, ctx):
        self.produce(ctx, self.case["second"], alt=True)

    def finish(self, ctx):
        instr.advance(0.25)
        for rec in ctx.w.futs:
            if rec["delegate"] is None:
                ctx.w.complete(rec["i"])
        instr.advance(30.0)

    def oracle(self, ctx, res, info):
        for a in (info.get("victim"), info.get("iact")):
            if a is not None and a.error is not None:
                res.violation("unexpected-exception/%s" % type(a.error).__name__, "%s: %r" % (self.case["name"], a.error), tb=getattr(a, "tb", None))
        ctx.w.judge(res, self.case["name"], info)
        if info.get("hit"):
            res.key("sweep", self.case["name"], info.get("site"))


class NPScenario(PScenario):
    def role_a(self, ctx):
        return "V"

    def role_x(self, ctx):
        return ctx.w.worker_role

    def start_a(self, ctx):
        return ctx.actor("V", self.produce, ctx, self.case["trigger"]).go()

    def intervene1(self, ctx):
        self.produce(ctx, self.case["second"], alt=True)

    def oracle(self, ctx, res, info):
        info = dict(info, site=(info.get("site"), info.get("site2")))
        for a in info.get("actors") or ():
            if a is not None and a.error is not None:
                res.violation("unexpected-exception/%s" % type(a.error).__name__, "%s: %r" % (self.case["name"], a.error), tb=getattr(a, "tb", None))
        ctx.w.judge(res, self.case["name"], info)
        if info.get("hit") and info.get("hit2"):
            res.key("nested", self.case["name"], info.get("site"))


def run_cfalsy(case, res):
    """The delegate's result (what the cancel function is called with) is a falsy value: the veto still counts."""
    ME = instr.ME
    for value in (0, "", None, False, (), 0.0):
        for answer in (False, True, "raise"):
            begin("vt")
            ctx = Ctx()
            try:
                me = ManualExecutor("me")
                ctx.own(me)
                asked = []

                def cancel_fn(r):
                    asked.append(r)
                    if answer == "raise":
                        raise UserErrorB("cancel_fn")
                    return answer
                ex = ctx.own(ME.Executors.with_poll(me, lambda ds: None, cancel_fn, 20.0))
                f = ex.submit(lambda: None)
                instr.advance(0.05)
                me.complete(0, value)
                instr.advance(0.25)
                r = f.cancel()
                instr.advance(0.25)
                res.execs += 1
                check_common(res)
                label = "cancel-table delegate result %r, cancel function %s" % (value, answer)
                if len(asked) != 1 or asked[0] is not value and asked[0] != value:
                    res.violation("cancel-fn/not-consulted", "%s: cancel function called with %r" % (label, asked))
                if answer is not True and (r is not False or f.cancelled()):
                    res.violation("cancel-fn/veto-ignored", "%s: cancel() returned %r, future cancelled=%s" % (label, r, f.cancelled()))
                if answer is True and r is not True:
                    res.violation("cancel-fn/consent-ignored", "%s: cancel() returned %r" % (label, r))
                res.key("cfalsy", repr(value), answer)
            finally:
                end(ctx)


def run_slowcfn(case, res):
    """The cancel function takes its time (3 virtual seconds); meanwhile a notify() arrives / another future becomes
    eligible: the poll thread serves them at that time, it does not wait for the cancel function to return."""
    begin("vt")
    ctx = Ctx()
    try:
        w = PW(ctx, 20.0, [[None, None, None, "v"], [None, "v"], ["v"]], {0: case["answer"], 1: True, 2: True})
        for _ in range(3):
            w.submit()
        w.complete(0)
        w.complete(1)
        instr.advance(0.25)

        def hook(i):
            acts = []
            if "notify" in case["what"]:
                w.notify()
            if "complete_other" in case["what"]:
                # (from another thread, as a delegate's worker would)
                acts.append(ctx.actor("D", w.complete, 2).go())
            # real-time wait until the poll thread has reacted (or shows that it cannot), then let virtual time pass
            try:
                instr.wait_for(instr.quiescent_but_me, timeout=5.0)
            except Inconclusive:
                pass
            instr.burn(3.0)
        w.cancel_hook = hook
        a = ctx.actor("C", w.cancel, 0).go()
        if drive([a] + [x for x in ctx.actors if x is not a]) != "ok" and not LM.deadlocks:
            raise Inconclusive("cancel did not return: " + instr.describe_threads())
        w.cancel_hook = None
        instr.advance(0.25)
        for rec in w.futs:
            if rec["delegate"] is None:
                w.complete(rec["i"])
        instr.advance(60.0)
        res.execs += 1
        check_common(res)
        if len(w.cancel_fn.calls) != 1:
            res.inconclusive.append("%s: cancel function called %d times" % (case["name"], len(w.cancel_fn.calls)))
        w.judge(res, case["name"])
        res.key("slowcfn", case["what"], case["answer"])
        res.sample({"cancel_fn_does": case["what"], "cancel_fn_answers": case["answer"],
                    "poll_calls": [(e[4]["idx"], e[4]["ids"], round(e[1] - w.t0, 3)) for e in LOG.select("poll.shown")][:10]}, limit=1)
    finally:
        end(ctx)


def run_ctable(case, res):
    """cancel() at each stage (delegate pending / polling / resolved) x cancel function behaviour."""
    for behaviour in (True, False, "raise"):
        for stage in ("pending", "polling", "resolved"):
            begin("vt")
            ctx = Ctx()
            try:
                w = PW(ctx, 5.0, [[None, None, "v"]], {0: behaviour})
                w.submit()
                if stage != "pending":
                    w.complete(0)
                    instr.advance(0.25)
                if stage == "resolved":
                    instr.advance(12.0)
                n_before = len(w.cancel_fn.calls)
                w.cancel(0)
                instr.advance(12.0)
                res.execs += 1
                check_common(res)
                label = "cancel-table cancel_fn=%s stage=%s" % (behaviour, stage)
                r = w.futs[0]["cancels"][-1][2] if w.futs[0]["cancels"] else None
                consulted = len(w.cancel_fn.calls) - n_before
                if stage == "polling" and consulted != 1:
                    res.violation("cancel-fn/not-consulted", "%s: cancel function called %d times" % (label, consulted))
                if stage != "polling" and consulted:
                    res.violation("cancel-fn/not-polling", "%s: cancel function consulted outside the polling stage" % label)
                if stage == "polling" and behaviour is not True:
                    if r is not False or w.futs[0]["fut"].cancelled():
                        res.violation("cancel-fn/veto-ignored", "%s: cancel() returned %r, future cancelled=%s" % (label, r, w.futs[0]["fut"].cancelled()))
                    elif outcome(w.futs[0]["fut"])[0] != "value":
                        res.violation("outcome/pending", "%s: vetoed future did not go on to resolve by polling: %s" % (label, outcome_repr(outcome(w.futs[0]["fut"]))))
                if stage == "polling" and behaviour is True and r is not True:
                    res.violation("cancel-fn/consent-ignored", "%s: cancel() returned %r" % (label, r))
                w.judge(res, label)
                res.key("ctable", behaviour, stage)
            finally:
                end(ctx)


def run_case(case, res):
    if case["kind"] == "ctable":
        return run_ctable(case, res)
    if case["kind"] == "slowcfn":
        return run_slowcfn(case, res)
    if case["kind"] == "cfalsy":
        return run_cfalsy(case, res)
    if case["kind"] == "nested":
        rng = random.Random("c08n/%s/%s" % (case["seed"], case["name"]))
        SweepNested(NPScenario(case), res, "vt", case["name"]).run(case["cap_a"], case["cap_b"], rng, per_site=1, a_slice=case["slice"])
        return
    if case["kind"] == "gen":
        run_gen(case, res)
    else:
        rng = random.Random("c08/%s/%s" % (case["seed"], case["name"]))
        Sweep(PScenario(case), res, "vt", case["name"], gran=case.get("gran")).run(case["cap"], rng, per_site=2)
