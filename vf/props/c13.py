"""C13 - map / flat_map laws: fn on success, error_fn on failure, exceptions preserved.

Differential check against a small model over the finite behaviour product
(input outcome x fn behaviour x error_fn behaviour x executor / f_* form x input
already done / completing later), chains vs. composition, and placement sweeps of
(input completion | cancel of the output) and (inner-future completion | cancel)."""
import random
import itertools
import traceback
import concurrent.futures as cf

from .. import instr, harness
from ..harness import (Sweep, SweepNested, Ctx, ManualExecutor, SpyFuture, call, check_common, begin, end, drive,
                       Recorded, UserError, UserErrorA, UserErrorB, OtherError, outcome, outcome_repr)
from ..instr import LOG, TR, LM, Inconclusive

TITLE = "map / flat_map laws"
RULE = ("one execution = one point of the behaviour product (map|flat_map) x (executor|f_* form) x input (value|exception) x "
        "(already done|completed later) x fn behaviour x error_fn behaviour, or one chain of 1-4 maps vs its composition, or one "
        "placement of cancel(output) inside the input's / inner future's completion; distinct & non-trivial = the product point "
        "(or chain, or placement site) whose output reached a terminal state")
REQUIRED = ["line_events", "lock_acquisitions"]

MAP_FN = ["omit", "ret", "raise", "ret_future"]
MAP_EFN = ["omit", "ret", "ret_none", "raise_new", "reraise", "raise_equal"]
FLAT_FN = ["omit", "ret_done", "ret_pending_value", "ret_pending_exc", "ret_failed", "ret_cancelled", "ret_nonfuture", "raise",
           "ret_nested_pending", "ret_nested_done"]
FLAT_EFN = ["omit", "ret_done", "ret_failed", "ret_pending_value", "ret_pending_exc", "ret_nonfuture", "raise_new", "reraise", "raise_equal"]


def cases(tier, seed):
    out = []
    for kind in ("map", "flat_map"):
        for form in ("executor", "f"):
            for inp in ("value", "exc", "future_value", "exc_falsy"):
                for when in ("done", "later"):
                    out.append({"name": "map.laws/%s/%s/%s/%s" % (kind, form, inp, when), "kind": "laws", "op": kind, "form": form,
                                "inp": inp, "when": when})
    n = 40 if tier == "quick" else 400
    for i in range(0, n, 10):
        out.append({"name": "map.chain/%d" % i, "kind": "chain", "lo": i, "hi": i + 10})
    for n in (30, 60, 120, 250):
        out.append({"name": "map.chain-long/n=%d" % n, "kind": "chainlong", "n": n})
    for kind in ("map", "flat_map"):
        for form in ("f", "executor"):
            for inp in ("value", "exc"):
                out.append({"name": "map.attach/%s/%s/%s" % (kind, form, inp), "kind": "attach", "op": kind, "form": form, "inp": inp,
                            "budget": 700 if tier == "quick" else None})
    for shape in ("flat>map", "map>flat>map", "flat>flat", "flat>map>map"):
        for direction in ("complete|cancel", "cancel|complete"):
            out.append({"name": "map.chain-cancel/%s/%s" % (shape, direction), "kind": "chainsweep", "shape": shape, "dir": direction,
                        "cap": 40 if tier == "quick" else None})
    cap = 24 if tier == "quick" else None
    for kind in ("map", "flat_map", "flat_map_inner"):
        for form in ("executor", "f"):
            for direction in ("complete|cancel", "cancel|complete"):
                out.append({"name": "map.cancel/%s/%s/%s" % (kind, form, direction), "kind": "sweep", "op": kind, "form": form,
                            "dir": direction, "cap": cap})
    return out


class EqError(Exception):
    """an exception with value equality (like a dataclass exception)"""

    def __eq__(self, other):
        return type(other) is type(self) and other.args == self.args

    def __hash__(self):
        return hash(self.args)


class FalsyInputError(EqError):
    """... which is also falsy (an aggregate error with no sub-errors)"""

    def __len__(self):
        return 0


class World(object):
    """One map / flat_map application with recorded fn / error_fn."""

    def refused_cancel(self):
        """The input is already running: cancel() of the output is refused."""
        fut = self.me.fut(0) if self.form == "executor" else self.src
        if not fut.done():
            fut.set_running_or_notify_cancel()
        return self.out.cancel()

    def __init__(self, ctx, op, form, inp, when, fnk, efnk):
        ME = instr.ME
        F = ME.futures
        self.op, self.form, self.inp, self.when, self.fnk, self.efnk = op, form, inp, when, fnk, efnk
        self.inner = None  # pending inner future returned by fn / error_fn
        self.inner_kind = None
        self.e_in = FalsyInputError("input") if inp == "exc_falsy" else EqError("input")
        self.e_equal = type(self.e_in)("input")  # equal to the input's exception, but another object
        self.e_fn = UserErrorB("fn")
        self.e_efn = OtherError("error_fn")
        self.e_inner = UserErrorB("inner")
        # futures that are *values* (of the input / of the future a flat-map function hands back): exactly one
        # level is flattened, these stay what they are
        self.vfut = SpyFuture("value-of-input")
        self.nested = SpyFuture("value-of-inner")
        self.fn = Recorded("fn", self._fn) if fnk != "omit" else None
        self.efn = Recorded("efn", self._efn) if efnk != "omit" else None
        kw = {}
        if self.efn is not None:
            kw["error_fn"] = self.efn
        if form == "executor":
            self.me = ManualExecutor("me")
            ctx.own(self.me)
            if op == "map":
                self.ex = ctx.own(ME.Executors.with_map(self.me, self.fn, **kw))
            else:
                self.ex = ctx.own(ME.Executors.with_flat_map(self.me, self.fn, **kw))
            if when == "done":
                self.me.auto = self._auto_complete
            self.out = self.ex.submit(lambda: None)
        else:
            self.src = SpyFuture("src")
            if when == "done":
                self._end(self.src)
            self.out = (F.f_map if op == "map" else F.f_flat_map)(self.src, self.fn, **kw)

    def _auto_complete(self, me, idx):
        self._end(me.fut(idx))

    def _end(self, fut):
        if self.inp == "value":
            fut.set_result(("v", 1))
        elif self.inp == "future_value":
            fut.set_result(self.vfut)
        else:
            try:
                raise self.e_in
            except EqError as e:
                fut.set_exception(e)

    def complete_input(self):
        if self.when == "done":
            return
        fut = self.me.fut(0) if self.form == "executor" else self.src
        if not fut.done():
            self._end(fut)

    def complete_inner(self):
        if self.inner is not None and not self.inner.done():
            if self.inner_kind == "value":
                self.inner.set_result(("inner", 7))
            else:
                self.inner.set_exception(self.e_inner)

    def _ret_future(self, k, x):
        F = instr.ME.futures
        if k == "ret_done":
            return F.f_return(("g", x if not isinstance(x, BaseException) else type(x).__name__))
        if k == "ret_failed":
            return F.f_return_error(self.e_inner)
        if k == "ret_cancelled":
            return F.f_return_cancelled()
        if k in ("ret_pending_value", "ret_pending_exc"):
            self.inner = SpyFuture("inner")
            self.inner_kind = "value" if k == "ret_pending_value" else "exc"
            return self.inner
        if k == "ret_nonfuture":
            return ("not a future", 3)
        if k == "ret_nested_pending":
            return F.f_return(self.nested)
        if k == "ret_nested_done":
            self.nested.set_result(("deep", 1))
            return F.f_return(self.nested)
        raise AssertionError(k)

    def _fn(self, idx, x):
        k = self.fnk
        if k == "ret":
            return ("g", x)
        if k == "raise":
            raise self.e_fn
        if k == "ret_future":
            return self.nested
        return self._ret_future(k, x)

    def _efn(self, idx, ex):
        k = self.efnk
        if k == "ret":
            return ("rec", type(ex).__name__)
        if k == "ret_none":
            return None
        if k == "raise_new":
            raise self.e_efn
        if k == "reraise":
            raise ex
        if k == "raise_equal":
            # a re-wrap: a new exception object that compares equal to the original
            raise self.e_equal
        return self._ret_future(k, ex)

    def model(self):
        """-> (kind, payload, fn_calls, efn_calls)"""
        flat = self.op == "flat_map"

        def fut_outcome(k, x):
            if k == "ret_done":
                return ("value", ("g", x if not isinstance(x, BaseException) else type(x).__name__))
            if k == "ret_failed":
                return ("exc", self.e_inner)
            if k == "ret_cancelled":
                return ("cancelled", None)
            if k == "ret_pending_value":
                return ("value", ("inner", 7))
            if k == "ret_pending_exc":
                return ("exc", self.e_inner)
            if k == "ret_nonfuture":
                return ("exctype", TypeError)
            if k in ("ret_nested_pending", "ret_nested_done"):
                return ("value", self.nested)
        if self.inp in ("value", "future_value"):
            v = ("v", 1) if self.inp == "value" else self.vfut
            if self.fnk == "ret_future":
                return ("value", self.nested, 1, 0)
            if self.fnk == "omit":
                return ("value", v, 0, 0)
            if self.fnk == "ret":
                return ("value", ("g", v), 1, 0) if not flat else ("exctype", TypeError, 1, 0)
            if self.fnk == "raise":
                return ("exc", self.e_fn, 1, 0)
            o = fut_outcome(self.fnk, v)
            return (o[0], o[1], 1, 0)
        e = self.e_in
        if self.efnk == "omit":
            return ("exc", e, 0, 0)
        if self.efnk == "ret":
            return ("value", ("rec", type(e).__name__), 0, 1) if not flat else ("exctype", TypeError, 0, 1)
        if self.efnk == "ret_none":
            return ("value", None, 0, 1) if not flat else ("exctype", TypeError, 0, 1)
        if self.efnk == "raise_new":
            return ("exc", self.e_efn, 0, 1)
        if self.efnk == "reraise":
            return ("exc", e, 0, 1)
        if self.efnk == "raise_equal":
            return ("exc", self.e_equal, 0, 1)
        o = fut_outcome(self.efnk, e)
        return (o[0], o[1], 0, 1)

    def judge(self, res, label, allow_cancelled=False):
        exp = self.model()
        o = outcome(self.out)
        fn_calls = len(self.fn.calls) if self.fn else 0
        efn_calls = len(self.efn.calls) if self.efn else 0
        if fn_calls > 1 or efn_calls > 1:
            res.violation("fn-called-more-than-once/%s" % ("fn" if fn_calls > 1 else "error_fn"),
                          "%s: fn called %d times, error_fn called %d times" % (label, fn_calls, efn_calls))
        if allow_cancelled and o[0] == "cancelled":
            return True
        if (fn_calls, efn_calls) != (exp[2], exp[3]) and o[0] != "pending":
            res.violation("wrong-function-applied", "%s: fn calls=%d error_fn calls=%d, model says %d/%d" % (label, fn_calls, efn_calls, exp[2], exp[3]))
        if o[0] == "pending":
            res.violation("output-pending", "%s: output still pending although input (and inner future) finished" % label)
            return False
        ok = False
        if exp[0] == "value":
            ok = o == ("value", exp[1])
        elif exp[0] == "exc":
            ok = o[0] == "exc" and o[1] is exp[1]
        elif exp[0] == "exctype":
            ok = o[0] == "exc" and isinstance(o[1], exp[1])
        elif exp[0] == "cancelled":
            ok = o[0] == "cancelled"
        if not ok:
            if o[0] == "value" and hasattr(o[1], "add_done_callback") and not hasattr(exp[1], "add_done_callback"):
                res.violation("nested-future-result", "%s: output resolved with a Future object (%r), model says %s" % (label, o[1], exp[:2]))
            else:
                res.violation("wrong-outcome/%s" % exp[0], "%s: output is %s, model says %s %r" % (label, outcome_repr(o), exp[0], exp[1]))
        elif exp[0] == "exc":
            # the original raise site must still be in the traceback
            tb = "".join(traceback.format_tb(o[1].__traceback__)) if o[1].__traceback__ else ""
            site = {id(self.e_in): "_end", id(self.e_fn): "_fn", id(self.e_efn): "_efn"}.get(id(o[1]))
            if site and site not in tb:
                res.violation("traceback-lost", "%s: exception %r propagated without its original raise site (%s) in __traceback__" % (label, o[1], site))
        return True


def run_laws(case, res):
    op = case["op"]
    fns = MAP_FN if op == "map" else FLAT_FN
    efns = MAP_EFN if op == "map" else FLAT_EFN
    combos = [(f, e, False) for f, e in itertools.product(fns, efns)]
    if case["when"] == "later":
        # the same product after a refused cancel() of the output (input already running)
        combos += [(f, e, True) for f, e in itertools.product(fns, efns)]
    for fnk, efnk, pre_cancel in combos:
        begin("rt")
        ctx = Ctx()
        try:
            w = World(ctx, op, case["form"], case["inp"], case["when"], fnk, efnk)
            if pre_cancel:
                r = w.refused_cancel()
                if r is not False:
                    res.violation("cancel-of-running-not-refused", "%s: cancel() returned %r while the input was running" % (case["name"], r))
            w.complete_input()
            w.complete_inner()
            res.execs += 1
            check_common(res)
            label = "%s fn=%s error_fn=%s%s" % (case["name"], fnk, efnk, " after a refused cancel()" if pre_cancel else "")
            if w.judge(res, label):
                res.key(case["name"], fnk, efnk, pre_cancel)
            res.sample({"point": [op, case["form"], case["inp"], case["when"], fnk, efnk], "output": outcome_repr(outcome(w.out)),
                        "fn_calls": len(w.fn.calls) if w.fn else 0, "error_fn_calls": len(w.efn.calls) if w.efn else 0}, limit=1)
        finally:
            end(ctx)


def run_chainlong(case, res):
    """Chains of n stages (all chain lengths): executor form, f_* form over an input that is already done, f_* form
    over an input completed afterwards; map and flat_map stages; value and exception (with a recovering last stage)."""
    import logging
    ME = instr.ME
    F = ME.futures
    n = case["n"]
    # (the library logs every exception its callbacks swallow, with the full traceback, at each level of a deep
    # chain that is unwinding: keep that out of the worker's log)
    logging.disable(logging.CRITICAL)
    try:
        _run_chainlong(case, res, ME, F, n)
    finally:
        logging.disable(logging.NOTSET)
    check_common(res)


def _run_chainlong(case, res, ME, F, n):
    for op in ("map", "flat_map"):
        for form in ("executor", "f-done", "f-later"):
            for inp in ("value", "exc"):
                begin("rt")
                ctx = Ctx()
                try:
                    e0 = UserErrorA("chain-input")
                    if form == "executor":
                        ex = ctx.own(ME.Executors.sync())
                        for k in range(n):
                            ex = ctx.own(ex.with_map(lambda x: x + 1) if op == "map" else ex.with_flat_map(lambda x: F.f_return(x + 1)))

                        def source():
                            if inp == "value":
                                return 0
                            raise e0
                        out = ex.submit(source)
                    else:
                        src = SpyFuture("src")
                        if form == "f-done":
                            if inp == "value":
                                src.set_result(0)
                            else:
                                src.set_exception(e0)
                        out = src
                        for k in range(n):
                            out = F.f_map(out, lambda x: x + 1) if op == "map" else F.f_flat_map(out, lambda x: F.f_return(x + 1))
                        if form == "f-later":
                            if inp == "value":
                                src.set_result(0)
                            else:
                                src.set_exception(e0)
                    res.execs += 1
                    o = outcome(out)
                    label = "%d %s stages, %s, input %s" % (n, op, form, inp)
                    depth = "deep" if n >= 60 else "short"
                    if o[0] == "pending":
                        res.violation("chain-long/pending/%s/%s/%s" % (op, form, depth),
                                      "%s: the input is finished, the last stage is still pending" % label)
                    elif inp == "value" and o != ("value", n):
                        res.violation("chain-long/wrong/%s/%s/%s" % (op, form, depth), "%s: result %s, composition gives %d" % (label, outcome_repr(o), n))
                    elif inp == "exc" and not (o[0] == "exc" and o[1] is e0):
                        res.violation("chain-long/wrong/%s/%s/%s" % (op, form, depth), "%s: result %s, the input's exception must pass through unchanged"
                                      % (label, outcome_repr(o)))
                    res.key("chainlong", n, op, form, inp)
                finally:
                    end(ctx)


def run_chain(case, res):
    ME = instr.ME
    F = ME.futures
    for idx in range(case["lo"], case["hi"]):
        rng = random.Random("c13c/%s/%s" % (case["seed"], idx))
        begin("rt")
        ctx = Ctx()
        try:
            n = rng.randint(1, 4)
            steps = []
            for k in range(n):
                kind = rng.choice(["tag", "tag", "raise", "recover", "flat"])
                steps.append((kind, k))
            inp = rng.choice(["value", "exc"])
            e0 = UserErrorA("chain-input")
            raised = {}

            def apply_step(step, kind_in, payload):
                """pure composition model: returns (kind, payload)"""
                kind, k = step
                if kind == "recover":
                    if kind_in == "exc":
                        return ("value", ("rec%d" % k, type(payload).__name__))
                    return (kind_in, payload)
                if kind_in == "exc":
                    return (kind_in, payload)
                if kind == "raise":
                    e = raised.setdefault(k, UserErrorB("step%d" % k))
                    return ("exc", e)
                return ("value", ("s%d" % k, payload))
            # model
            cur = ("value", ("v", 0)) if inp == "value" else ("exc", e0)
            for st in steps:
                cur = apply_step(st, cur[0], cur[1])
            # real chain, executor form over sync and f_* form over a spy completed later
            for form in ("executor", "f"):
                def mk(step):
                    kind, k = step
                    if kind == "tag":
                        return {"fn": lambda x, k=k: ("s%d" % k, x)}
                    if kind == "flat":
                        return {"fn": lambda x, k=k: F.f_return(("s%d" % k, x)), "flat": True}
                    if kind == "raise":
                        def f(x, k=k):
                            raise raised.setdefault(k, UserErrorB("step%d" % k))
                        return {"fn": f}
                    return {"fn": None, "error_fn": lambda ex, k=k: ("rec%d" % k, type(ex).__name__)}

                def source():
                    if inp == "value":
                        return ("v", 0)
                    raise e0
                if form == "executor":
                    ex = ME.Executors.sync()
                    ctx.own(ex)
                    for st in steps:
                        m = mk(st)
                        if m.get("flat"):
                            ex = ex.with_flat_map(m["fn"])
                        else:
                            ex = ex.with_map(m["fn"], error_fn=m.get("error_fn"))
                        ctx.own(ex)
                    out = ex.submit(source)
                else:
                    src = SpyFuture("src")
                    out = src
                    # in every other chain somebody observes the intermediate stages with a done-callback of their
                    # own, registered before the next stage is attached - one that raises
                    observed = idx % 2 == 1

                    def observer(_f):
                        raise UserErrorB("observer")
                    for st in steps:
                        m = mk(st)
                        if m.get("flat"):
                            out = F.f_flat_map(out, m["fn"])
                        else:
                            out = F.f_map(out, m["fn"], error_fn=m.get("error_fn"))
                        if observed:
                            out.add_done_callback(observer)
                    if inp == "value":
                        src.set_result(("v", 0))
                    else:
                        src.set_exception(e0)
                o = outcome(out)
                res.execs += 1
                label = "chain %s form=%s input=%s" % (steps, form, inp)
                ok = (cur[0] == "value" and o == ("value", cur[1])) or (cur[0] == "exc" and o[0] == "exc" and o[1] is cur[1])
                if not ok:
                    res.violation("chain-differs-from-composition", "%s: chained result %s, composed function gives %s %r"
                                  % (label, outcome_repr(o), cur[0], cur[1]))
                res.key("chain", str(steps), form, inp)
            check_common(res)
        finally:
            end(ctx)


class CScenario(object):
    def __init__(self, case):
        self.case = case

    def setup(self):
        ctx = Ctx()
        op = self.case["op"]
        if op == "flat_map_inner":
            w = World(ctx, "flat_map", self.case["form"], "value", "later", "ret_pending_value", "omit")
            w.complete_input()
        elif op == "flat_map":
            w = World(ctx, "flat_map", self.case["form"], "value", "later", "ret_done", "omit")
        else:
            w = World(ctx, "map", self.case["form"], "value", "later", "ret", "omit")
        ctx.w = w
        ctx.cancel_ret = None
        return ctx

    def complete(self, ctx):
        if self.case["op"] == "flat_map_inner":
            ctx.w.complete_inner()
        else:
            ctx.w.complete_input()

    def cancel(self, ctx):
        ctx.cancel_ret = ctx.w.out.cancel()

    def victim_role(self, ctx):
        return "V"

    def start_victim(self, ctx):
        return ctx.actor("V", self.complete if self.case["dir"].startswith("complete") else self.cancel, ctx).go()

    def intervene(self, ctx):
        (self.cancel if self.case["dir"].startswith("complete") else self.complete)(ctx)

    def finish(self, ctx):
        self.complete(ctx)
        ctx.w.complete_inner()

    def oracle(self, ctx, res, info):
        label = "%s placement=%s cancel()->%r" % (self.case["name"], info.get("site"), ctx.cancel_ret)
        for a in (info.get("victim"), info.get("iact")):
            if a is not None and a.error is not None and not isinstance(a.error, cf.InvalidStateError):
                res.violation("unexpected-exception/%s" % type(a.error).__name__, "%s: %r" % (label, a.error), tb=getattr(a, "tb", None))
        w = ctx.w
        o = outcome(w.out)
        if ctx.cancel_ret is True:
            if o[0] != "cancelled":
                res.violation("cancel-true-but-%s" % o[0], "%s: cancel() returned True, output is %s" % (label, outcome_repr(o)))
            if w.fn and len(w.fn.calls) > 1:
                res.violation("fn-called-more-than-once/fn", "%s: fn called %d times" % (label, len(w.fn.calls)))
        else:
            w.judge(res, label)
        if info.get("hit"):
            res.key("cancel", self.case["name"], info.get("site"))


class ChainScenario(object):
    """A chain of f_map / f_flat_map stages (flat_map functions return already finished futures) whose input
    completes on one thread while the final output is cancelled on another."""

    def __init__(self, case):
        self.case = case

    def setup(self):
        F = instr.ME.futures
        ctx = Ctx()
        ctx.src = SpyFuture("src")
        cur = ctx.src
        ctx.stages = []
        for k, st in enumerate(self.case["shape"].split(">")):
            if st == "flat":
                cur = F.f_flat_map(cur, lambda x, k=k: F.f_return(("f%d" % k, x)))
            else:
                cur = F.f_map(cur, lambda x, k=k: ("m%d" % k, x))
            ctx.stages.append(cur)
        ctx.out = cur
        ctx.cancel_ret = None
        return ctx

    def complete(self, ctx):
        try:
            ctx.src.set_result(("v", 1))
        except cf.InvalidStateError:
            pass

    def cancel(self, ctx):
        ctx.cancel_ret = ctx.out.cancel()

    def victim_role(self, ctx):
        return "V"

    def start_victim(self, ctx):
        return ctx.actor("V", self.complete if self.case["dir"].startswith("complete") else self.cancel, ctx).go()

    def intervene(self, ctx):
        (self.cancel if self.case["dir"].startswith("complete") else self.complete)(ctx)

    def hang_key(self, ctx, stuck):
        return "map.chain-cancel/%s" % self.case["shape"]

    def finish(self, ctx):
        self.complete(ctx)

    def oracle(self, ctx, res, info):
        label = "%s placement=%s cancel()->%r" % (self.case["name"], info.get("site"), ctx.cancel_ret)
        o = outcome(ctx.out)
        want = ("v", 1)
        for k, st in enumerate(self.case["shape"].split(">")):
            want = (("f%d" if st == "flat" else "m%d") % k, want)
        if ctx.cancel_ret is True:
            if o[0] != "cancelled":
                res.violation("cancel-true-but-%s" % o[0], "%s: output is %s" % (label, outcome_repr(o)))
        elif o[0] == "pending":
            res.violation("output-pending", "%s: chain output never resolved" % label)
        elif o != ("value", want) and o[0] != "cancelled":
            res.violation("chain-differs-from-composition", "%s: got %s expected %r" % (label, outcome_repr(o), want))
        if info.get("hit"):
            res.key("chaincancel", self.case["name"], info.get("site"))


class AScenario(object):
    """stage 1 completing on one thread (paused at i) while stage 2 is being attached on
    another (paused at j); the completer is released first."""

    def __init__(self, case):
        self.case = case

    def setup(self):
        ME = instr.ME
        F = ME.futures
        ctx = Ctx()
        flat = self.case["op"] == "flat_map"
        ctx.g = Recorded("g", (lambda idx, x: F.f_return(("g", x))) if flat else (lambda idx, x: ("g", x)))
        ctx.h = Recorded("h", (lambda idx, x: F.f_return(("h", x))) if flat else (lambda idx, x: ("h", x)))
        ctx.eh = Recorded("eh", lambda idx, ex: (F.f_return(("rec", type(ex).__name__)) if flat else ("rec", type(ex).__name__)))
        ctx.e = UserErrorA("in")
        if self.case["form"] == "f":
            ctx.src = SpyFuture("src")
            ctx.m = (F.f_flat_map if flat else F.f_map)(ctx.src, ctx.g)
        else:
            ctx.me = ManualExecutor("me")
            ctx.own(ctx.me)
            ex = (ME.Executors.with_flat_map if flat else ME.Executors.with_map)(ctx.me, ctx.g)
            ctx.own(ex)
            ctx.m = ex.submit(lambda: None)
            ctx.src = ctx.me.fut(0)
        ctx.out = None
        return ctx

    def role_a(self, ctx):
        return "V"

    def start_a(self, ctx):
        def complete():
            if self.case["inp"] == "value":
                ctx.src.set_result(("v", 1))
            else:
                ctx.src.set_exception(ctx.e)
        return ctx.actor("V", complete).go()

    def intervene1(self, ctx):
        F = instr.ME.futures
        ctx.out = (F.f_flat_map if self.case["op"] == "flat_map" else F.f_map)(ctx.m, ctx.h, error_fn=ctx.eh)

    def finish(self, ctx):
        pass

    def oracle(self, ctx, res, info):
        label = "%s placement=%s/%s" % (self.case["name"], info.get("site"), info.get("site2"))
        if ctx.out is None:
            return
        o = outcome(ctx.out)
        want = ("value", ("h", ("g", ("v", 1)))) if self.case["inp"] == "value" else ("value", ("rec", "UserErrorA"))
        if o[0] == "pending":
            res.violation("chain-stage-lost", "%s: second stage attached while the first was resolving never resolved (first stage is %s)"
                          % (label, outcome_repr(outcome(ctx.m))))
        elif o != want:
            res.violation("chain-differs-from-composition", "%s: got %s, expected %r" % (label, outcome_repr(o), want))
        for r in (ctx.g, ctx.h, ctx.eh):
            if len(r.calls) > 1:
                res.violation("fn-called-more-than-once/fn", "%s: %s called %d times" % (label, r.vf_id, len(r.calls)))
        if info.get("hit") and info.get("hit2"):
            res.key("attach", self.case["name"], info.get("site"), info.get("site2"))


def run_case(case, res):
    k = case["kind"]
    if k == "chainsweep":
        rng = random.Random("c13cs/%s/%s" % (case["seed"], case["name"]))
        Sweep(ChainScenario(case), res, "rt", case["name"]).run(case["cap"], rng, per_site=3)
        return
    if k == "attach":
        rng = random.Random("c13a/%s/%s" % (case["seed"], case["name"]))
        SweepNested(AScenario(case), res, "rt", case["name"]).run(None, None, rng, per_site=1, budget=case["budget"])
        return
    if k == "chainlong":
        return run_chainlong(case, res)
    if k == "laws":
        run_laws(case, res)
    elif k == "chain":
        run_chain(case, res)
    else:
        rng = random.Random("c13/%s/%s" % (case["seed"], case["name"]))
        Sweep(CScenario(case), res, "rt", case["name"]).run(case["cap"], rng, per_site=2)
