"""C18 - faults in user code stay with their own future; worker threads survive.

Stacks over an inline manual delegate in virtual time.  Every user-code call site
(callable, map / error / flat-map function, poll and cancel function, retry policy
methods, throttle count callable, done-callbacks) raises at generated call indices;
submissions carry ids so that each faulting call is attributed to the future(s) it
belongs to.  Oracles: untouched submissions have their model outcome, every future
finishes, no thread dies, no library-internal exception is logged from a callback
runner or leaves a Future method, and a probe submission afterwards completes."""
import random
import logging
import itertools
import concurrent.futures as cf

from .. import instr, harness, stacks
from ..harness import (Sweep, Sweep2, Ctx, ManualExecutor, call, check_common, begin, end, drive, Recorded, run_inline,
                       UserErrorA, outcome, outcome_repr)
from ..instr import LOG, TR, LM, Inconclusive

TITLE = "fault isolation"
RULE = ("one execution = one stack (1-3 layers) over an inline manual delegate, 4 submissions with ids, one fault plan "
        "(site x call indices: first / k-th / every), optional concurrent cancels, then a probe submission; or one placement of "
        "a cancel inside the path surrounding a faulting call; distinct & non-trivial = (stack, fault plan | placement site) in "
        "which the planned fault actually fired")
REQUIRED = ["line_events", "lock_acquisitions", "vevent_waits"]
SITES = ["callable", "map_fn", "error_fn", "flat_fn", "poll_fn", "cancel_fn", "should_retry", "sleep_time", "count_fn", "cb"]
NEED = {"map_fn": "map", "error_fn": "map", "flat_fn": "flat_map", "poll_fn": "poll", "cancel_fn": "poll", "should_retry": "retry",
        "sleep_time": "retry", "count_fn": "throttle"}
TYPES = ["map", "flat_map", "retry", "poll", "throttle", "timeout", "cos"]


class Fault(Exception):
    """the exception injected into user code"""


class LogTap(logging.Handler):
    """Collects exceptions that somebody logged instead of raising (callback runners)."""

    def __init__(self):
        logging.Handler.__init__(self)
        self.records = []

    def emit(self, record):
        if record.exc_info and record.exc_info[1] is not None:
            self.records.append((record.name, record.exc_info[1], record.getMessage()[:120]))


TAP = LogTap()
_tapped = [False]


def tap():
    if not _tapped[0]:
        for name in ("concurrent.futures", "more_executors._Future", "RetryExecutor", "PollExecutor", "ThrottleExecutor",
                     "TimeoutExecutor", "CancelOnShutdownExecutor", "more_executors.futures"):
            lg = logging.getLogger(name)
            lg.addHandler(TAP)
            lg.propagate = False
        _tapped[0] = True
    TAP.records = []


def cases(tier, seed):
    out = []
    rng = random.Random("c18/%s" % seed)
    n = 6 if tier == "quick" else 600
    for site in SITES:
        for i in range(n):
            out.append({"name": "fault.site/%s/%d" % (site, i), "kind": "plan", "site": site, "idx": i})
    cap = None
    for site in ("callable", "should_retry", "sleep_time", "poll_fn", "map_fn"):
        for direction in ("fault|cancel", "cancel|fault"):
            out.append({"name": "fault.sweep/%s/%s" % (site, direction), "kind": "sweep", "site": site, "dir": direction, "cap": cap})
    out.append({"name": "fault.sweep-worker/poll_fn", "kind": "wsweep", "cap": None})
    out.append({"name": "fault.blocked-submit/count_fn", "kind": "blockedcount"})
    for stack in ("flat_map", "map>flat_map>throttle", "flat_map>throttle", "flat_map>retry", "flat_map>timeout"):
        out.append({"name": "fault.nonfuture-error_fn/%s" % stack, "kind": "nonfuture", "stack": stack})
    for seq in ("0,2,raise", "1,3,raise", "0,0,2,raise", "2,raise,raise"):
        out.append({"name": "fault.count-sequence/%s" % seq, "kind": "countseq", "seq": seq})
    for first in ("fail", "complete"):
        out.append({"name": "fault.depth2/retry/%s" % first, "kind": "depth2", "first": first, "budget": 150 if tier == "quick" else 3000})
    for layers in (["retry"], ["throttle"], ["retry", "map"], ["poll"], ["timeout"]):
        out.append({"name": "fault.shutdown-race/%s" % ">".join(layers), "kind": "sdrace", "layers": layers, "cap": cap})
    for comb in ("zip", "and", "or", "sequence"):
        out.append({"name": "fault.late-input/%s" % comb, "kind": "late", "comb": comb})
    # no user fault at all: lost races between completion and cancel must not surface as library-internal exceptions
    # (out of a Future method, into a worker thread, or into the delegate's callback dispatch)
    for entry in ("f_zip", "f_and", "f_or", "f_sequence", "f_traverse", "f_apply", "f_map", "f_flat_map", "retry", "retrying", "poll", "throttle",
                  "timeout", "map>retry"):
        for ckind in ("value", "exc"):
            out.append({"name": "internal.race/%s/%s" % (entry, ckind), "kind": "irace", "entry": entry, "ckind": ckind, "cap": None})
    for entry in ("poll", "map", "retry", "throttle", "timeout"):
        for ckind in ("value", "exc"):
            out.append({"name": "internal.race-instr/%s/%s" % (entry, ckind), "kind": "irace", "entry": entry, "ckind": ckind, "cap": None,
                        "gran": "instr"})
    for op in ("cancel_queued_last", "cancel_queued_first", "submit", "complete"):
        for op2 in ("submit", "cancel_queued_last", "cancel_queued_first", "complete"):
            if op != op2 or op == "submit":
                out.append({"name": "internal.queue/%s|%s" % (op, op2), "kind": "iqueue", "a": op, "b": op2, "cap": None})
    return out


class FW(object):
    """World with fault plan."""

    def __init__(self, ctx, layers, site, at, inline=True, policy_retry_value=False):
        ME = instr.ME
        self.ME = ME
        self.ctx, self.layers, self.site, self.at = ctx, layers, site, at
        self.calls = {}
        self.fired = []  # (site, call index, attributed sids)
        self.me = ManualExecutor("me", auto=run_inline if inline else None)
        ctx.own(self.me)
        cur = self.me
        self.building = True
        self.hit = set()
        self.sid_of_future = {}
        for k, t in enumerate(layers):
            if t == "map":
                cur = ME.Executors.with_map(cur, self.wrap("map_fn", lambda x: ("m", x), attr=lambda x: [sid_of(x)]),
                                            error_fn=self.wrap("error_fn", self._efn, attr=lambda ex: [getattr(ex, "sid", None)]))
            elif t == "flat_map":
                cur = ME.Executors.with_flat_map(cur, self.wrap("flat_fn", lambda x: ME.futures.f_return(("fm", x)), attr=lambda x: [sid_of(x)]))
            elif t == "retry":
                w = self

                class Pol(ME.retry.RetryPolicy):
                    def should_retry(self, attempt, future):
                        return w.wrap("should_retry", lambda a, f: a < 3 and f.exception() is not None, attr=lambda a, f: [w.fsid(f)])(attempt, future)

                    def sleep_time(self, attempt, future):
                        return w.wrap("sleep_time", lambda a, f: 0.25, attr=lambda a, f: [w.fsid(f)])(attempt, future)
                cur = ME.Executors.with_retry(cur, Pol())
            elif t == "poll":
                cur = ME.Executors.with_poll(cur, self.wrap("poll_fn", self._poll, attr=lambda ds: [sid_of(d.result) for d in ds]),
                                             self.wrap("cancel_fn", lambda r: True, attr=lambda r: [sid_of(r)]), 1.0)
            elif t == "throttle":
                cur = ME.Executors.with_throttle(cur, self.wrap("count_fn", lambda: 2, attr=lambda: []))
            elif t == "timeout":
                cur = ME.Executors.with_timeout(cur, 500.0)
            elif t == "cos":
                cur = ME.Executors.with_cancel_on_shutdown(cur)
            ctx.own(cur)
        self.top = cur
        self.building = False
        self.subs = []
        self.api_errors = []
        self.cb_runs = {}

    def fsid(self, f):
        try:
            e = f.exception(timeout=0)
            if e is not None:
                return getattr(e, "sid", None)
            return sid_of(f.result(timeout=0))
        except Exception:
            return None

    def _efn(self, ex):
        raise ex

    def _poll(self, ds):
        for d in ds:
            d.yield_result(("p", d.result))
        return None

    def wrap(self, site, fn, attr):
        def wrapped(*a, **k):
            n = self.calls.get(site, 0)
            self.calls[site] = n + 1
            if self.building:
                # calls made by constructors (throttle evaluates its count there): the user's exception
                # would go straight back to the user, no future is involved
                self.calls[site] = n
                return fn(*a, **k)
            if site == self.site and (self.at == "every" or n in self.at):
                sids = [s for s in attr(*a, **k) if s is not None]
                self.fired.append((site, n, sids))
                self.hit.update(sids)
                LOG.add("fault", site=site, n=n, sids=sids)
                raise Fault("%s#%d" % (site, n))
            return fn(*a, **k)
        wrapped.vf_id = site
        return wrapped

    def submit(self, sid, fail_first=0):
        state = {"n": 0}

        def job():
            def body():
                state["n"] += 1
                if state["n"] <= fail_first:
                    e = UserErrorA("sid%d attempt%d" % (sid, state["n"]))
                    e.sid = sid
                    raise e
                return ("v", sid)
            return self.wrap("callable", body, attr=lambda: [sid])()
        job.vf_id = "job%d" % sid
        try:
            f = self.top.submit(job)
        except instr.DeadlockBroken:
            raise
        except BaseException as e:
            self.api_errors.append(("submit", sid, e))
            return None
        rec = {"sid": sid, "f": f, "fail_first": fail_first, "cancelled_by_user": False}
        self.subs.append(rec)
        self.sid_of_future[id(f)] = sid

        def cb(fut, sid=sid):
            self.cb_runs[sid] = self.cb_runs.get(sid, 0) + 1
            self.wrap("cb", lambda: None, attr=lambda: [])()
        for c in (cb, lambda fut, sid=sid: self.cb_runs.__setitem__(("second", sid), 1)):
            try:
                f.add_done_callback(c)
            except instr.DeadlockBroken:
                raise
            except Fault:
                # an already-done future runs the callback inline: the user's own exception comes back to the user
                pass
            except BaseException as e:
                self.api_errors.append(("add_done_callback", sid, e))
        return rec

    def cancel(self, sid):
        for rec in self.subs:
            if rec["sid"] == sid and not rec["f"].done():
                try:
                    r = rec["f"].cancel()
                    if r:
                        rec["cancelled_by_user"] = True
                except instr.DeadlockBroken:
                    raise
                except BaseException as e:
                    self.api_errors.append(("cancel", sid, e))

    def drain(self, t=12.0):
        for _ in range(6):
            instr.advance(t / 6)
            for k in self.me.pending():
                self.me.run(k)

    def model(self, rec):
        spec = {"base": "me", "layers": []}
        # unfaulted sequential value: callable fails fail_first times; retry (max 3 attempts) recovers if fail_first < 3
        has_retry = "retry" in self.layers
        n_fail = rec["fail_first"]
        attempts_allowed = 1
        for t in self.layers:
            if t == "retry":
                attempts_allowed *= 3
        if n_fail >= attempts_allowed:
            return ("exc", None)
        v = ("v", rec["sid"])
        for t in self.layers:
            if t == "map":
                v = ("m", v)
            elif t == "flat_map":
                v = ("fm", v)
            elif t == "poll":
                v = ("p", v)
        return ("value", v)

    def judge(self, res, label, threads, probe=True):
        where = label
        for (api, sid, e) in self.api_errors:
            if isinstance(e, RuntimeError) and "cannot schedule new futures" in str(e):
                continue
            res.violation("exception-escaped/%s/%s" % (api, type(e).__name__), "%s: %s() for submission %s raised %r" % (where, api, sid, e))
        for (logger, exc, msg) in TAP.records:
            if isinstance(exc, (Fault, UserErrorA)):
                continue
            res.violation("internal-exception-logged/%s" % type(exc).__name__,
                          "%s: library-internal exception escaped into a callback runner / worker and was logged by %s: %r (%s)" % (where, logger, exc, msg))
        dead = [t.vf_role for t in threads if not t.is_alive() or t.vf_finished]
        if dead:
            res.violation("worker-thread-died/%s" % dead[0].split("-")[0].replace("W:", ""), "%s: worker thread(s) %s are dead after the fault(s) %s" % (where, dead, self.fired[:3]))
        for rec in self.subs:
            o = outcome(rec["f"])
            sid = rec["sid"]
            if o[0] == "pending":
                res.violation("future-stuck/%s" % self.site, "%s: submission %d still pending (fault plan %s at %s, fired %s)" % (where, sid, self.site, self.at, self.fired[:4]))
                continue
            if sid in self.hit or rec["cancelled_by_user"]:
                continue
            exp = self.model(rec)
            if exp[0] == "value" and o != exp:
                res.violation("innocent-future-affected/%s" % self.site,
                              "%s: submission %d was not touched by any fault (%s) but has %s instead of %r" % (where, sid, self.fired[:4], outcome_repr(o), exp[1]))
            elif exp[0] == "exc" and o[0] != "exc":
                res.violation("innocent-future-affected/%s" % self.site, "%s: submission %d should fail, has %s" % (where, sid, outcome_repr(o)))
            if self.cb_runs.get(sid, 0) != 1 or self.cb_runs.get(("second", sid)) != 1:
                res.violation("callback-skipped-after-fault", "%s: submission %d: first callback ran %s times, second callback ran %s"
                              % (where, sid, self.cb_runs.get(sid, 0), self.cb_runs.get(("second", sid), 0)))
        return bool(self.fired)


def sid_of(x):
    while isinstance(x, tuple) and x and x[0] != "v":
        x = x[-1]
    if isinstance(x, tuple) and len(x) == 2 and x[0] == "v":
        return x[1]
    return None


def gen_layers(rng, site):
    need = NEED.get(site)
    n = rng.randint(1, 3)
    layers = [rng.choice(TYPES) for _ in range(n)]
    if need and need not in layers:
        layers[rng.randrange(n)] = need
    return layers


def run_plan(case, res):
    rng = random.Random("c18/%s/%s" % (case["seed"], case["name"]))
    site = case["site"]
    for it in range(4):
        layers = gen_layers(rng, site)
        at = rng.choice([{0}, {1}, {2}, {0, 1}, {1, 3}, "every", {0, 2, 4}])
        begin("vt")
        ctx = Ctx()
        tap()
        try:
            n0 = len(instr.TRACKED)
            w = FW(ctx, layers, site, at)
            threads = [t for t in instr.TRACKED[n0:]]
            cancels = rng.random() < 0.4
            for sid in range(4):
                ff = rng.choice([0, 0, 1, 1, 2]) if (site in ("error_fn", "should_retry", "sleep_time") or rng.random() < 0.3) else 0
                w.submit(sid, fail_first=ff)
                instr.advance(rng.choice([0.0, 0.3]))
                if cancels and rng.random() < 0.3:
                    w.cancel(rng.randrange(sid + 1))
                if site == "cancel_fn" and "poll" in layers:
                    w.cancel(sid)
            w.drain()
            # probe: the executor must still serve a fresh submission (planned faults may also hit it)
            probe_plan_hit = len(w.hit)
            w.at = set() if w.at == "every" else w.at  # 'every' plans stop before the probe
            p = w.submit(99, 0)
            w.drain()
            label = "stack=%s fault=%s@%s" % (">".join(layers), site, sorted(at) if at != "every" else at)
            res.execs += 1
            check_common(res)
            if LM.deadlocks:
                continue
            if p is not None and not p["f"].done() and 99 not in w.hit:
                res.violation("probe-stuck/%s" % site, "%s: a fresh submission after the faults never completed (executor wedged)" % label)
            if w.judge(res, label, threads):
                res.key(">".join(layers), site, str(at))
            res.sample({"stack": layers, "fault_site": site, "at_calls": sorted(at) if at != "every" else at, "fired": w.fired[:5],
                        "outcomes": [outcome(r["f"])[0] for r in w.subs]}, limit=1)
        finally:
            end(ctx)


class SScenario(object):
    """cancel racing the path around a faulting call."""
    LAYERS = {"callable": ["retry"], "should_retry": ["retry"], "sleep_time": ["retry"], "poll_fn": ["poll"], "map_fn": ["map"]}

    def __init__(self, case):
        self.case = case

    def setup(self):
        ctx = Ctx()
        tap()
        site = self.case["site"]
        n0 = len(instr.TRACKED)
        w = FW(ctx, self.LAYERS[site], site, {0, 1}, inline=False)
        ctx.threads = [t for t in instr.TRACKED[n0:]]
        ctx.w = w
        w.submit(0, fail_first=1 if site in ("should_retry", "sleep_time") else 0)
        w.submit(1, 0)
        instr.advance(0.05)
        return ctx

    def fault_action(self, ctx):
        # run the first pending delegate item: the callable / its callbacks hit the planned fault
        p = ctx.w.me.pending()
        if p:
            ctx.w.me.run(p[0])

    def victim_role(self, ctx):
        return "V"

    def start_victim(self, ctx):
        if self.case["dir"].startswith("fault"):
            return ctx.actor("V", self.fault_action, ctx).go()
        return ctx.actor("V", ctx.w.cancel, 0).go()

    def intervene(self, ctx):
        if self.case["dir"].startswith("fault"):
            ctx.w.cancel(0)
        else:
            self.fault_action(ctx)

    def finish(self, ctx):
        ctx.w.drain()
        ctx.w.at = set()
        ctx.probe = ctx.w.submit(99, 0)
        ctx.w.drain()

    def oracle(self, ctx, res, info):
        label = "%s placement=%s" % (self.case["name"], info.get("site"))
        w = ctx.w
        w.hit.add(0)  # submission 0 is the one being faulted / cancelled
        if ctx.probe is not None and not ctx.probe["f"].done():
            res.violation("probe-stuck/%s" % self.case["site"], "%s: probe submission never completed" % label)
        w.judge(res, label, ctx.threads)
        if info.get("hit"):
            res.key("sweep", self.case["name"], info.get("site"))


class WScenario(object):
    """The poll thread is inside a poll call that is going to raise; meanwhile another submission's
    delegate finishes and registers for polling: it was never shown to that call and must not be failed."""

    def __init__(self, case):
        self.case = case

    def setup(self):
        ctx = Ctx()
        tap()
        n0 = len(instr.TRACKED)
        w = FW(ctx, ["poll"], "poll_fn", {1, 2}, inline=False)
        ctx.threads = [t for t in instr.TRACKED[n0:]]
        ctx.w = w
        w.submit(0, 0)
        w.submit(1, 0)
        instr.advance(0.05)
        # the poll calls the trigger and the intervention cause are the ones that raise
        n = w.calls.get("poll_fn", 0)
        w.at = set([n, n + 1])
        return ctx

    def victim_role(self, ctx):
        return ctx.threads[-1].vf_role

    def start_victim(self, ctx):
        def trig():
            p = ctx.w.me.pending()
            if p:
                ctx.w.me.run(p[0])
        return ctx.actor("T", trig).go()

    def intervene(self, ctx):
        p = ctx.w.me.pending()
        if p:
            ctx.w.me.run(p[0])

    def finish(self, ctx):
        ctx.w.at = set()
        ctx.w.drain()
        ctx.probe = ctx.w.submit(99, 0)
        ctx.w.drain()

    def oracle(self, ctx, res, info):
        label = "%s placement=%s" % (self.case["name"], info.get("site"))
        if ctx.probe is not None and not ctx.probe["f"].done():
            res.violation("probe-stuck/poll_fn", "%s: probe never completed" % label)
        ctx.w.judge(res, label, ctx.threads)
        if not ctx.w.fired:
            res.inconclusive.append("%s: no fault was injected" % label)
        if info.get("hit"):
            res.key("wsweep", info.get("site"))


class D2Scenario(object):
    """retry: (delegate callback | cancel) then (submit thread | cancel) with a retry-on-value policy - the
    schedule behind 'invalid-state error from a lost race with cancel'."""

    def __init__(self, case):
        self.case = case

    def setup(self):
        ME = instr.ME
        ctx = Ctx()
        tap()
        n0 = len(instr.TRACKED)
        me = ManualExecutor("me")
        ctx.own(me)

        class P(ME.retry.RetryPolicy):
            def should_retry(self, attempt, future):
                return attempt < 3

            def sleep_time(self, attempt, future):
                return 0.25
        ex = ctx.own(ME.Executors.with_retry(me, P()))
        ctx.threads = [t for t in instr.TRACKED[n0:]]
        ctx.me, ctx.ex = me, ex
        ctx.f = ex.submit(lambda: 1)
        ctx.errors = []
        instr.advance(0.01)
        me.mark_running(0)
        return ctx

    def role_a(self, ctx):
        return "V"

    def role_b(self, ctx):
        return ctx.threads[-1].vf_role

    def start_a(self, ctx):
        def act():
            if self.case["first"] == "fail":
                ctx.me.fail(0, UserErrorA("a1"))
            else:
                ctx.me.complete(0, ("v", 0))
        return ctx.actor("V", act).go()

    def _cancel(self, ctx):
        try:
            ctx.f.cancel()
        except instr.DeadlockBroken:
            raise
        except BaseException as e:
            ctx.errors.append(e)

    intervene1 = _cancel
    intervene2 = _cancel

    def finish(self, ctx):
        for _ in range(4):
            instr.advance(1.0)
            for k in ctx.me.pending():
                ctx.me.run(k)
        ctx.probe = None
        try:
            ctx.probe = ctx.ex.submit(lambda: "probe")
        except BaseException as e:
            ctx.errors.append(e)
        for _ in range(3):
            instr.advance(1.0)
            for k in ctx.me.pending():
                ctx.me.run(k)

    def oracle(self, ctx, res, info):
        label = "%s placement=%s/%s" % (self.case["name"], info.get("site"), info.get("site2"))
        for e in ctx.errors:
            res.violation("exception-escaped/cancel/%s" % type(e).__name__, "%s: %r" % (label, e))
        dead = [t.vf_role for t in ctx.threads if not t.is_alive() or t.vf_finished]
        if dead:
            res.violation("worker-thread-died/RetryExecutor", "%s: %s dead" % (label, dead))
        if ctx.probe is not None and not ctx.probe.done():
            res.violation("probe-stuck/retry", "%s: probe submission never completed" % label)
        for (logger, exc, msg) in TAP.records:
            if not isinstance(exc, (Fault, UserErrorA)):
                res.violation("internal-exception-logged/%s" % type(exc).__name__, "%s: %s logged %r" % (label, logger, exc))
        if info.get("hit2"):
            res.key("depth2", self.case["name"], info.get("site"), info.get("site2"))


class SDScenario(object):
    """shutdown racing a worker's hand-over: afterwards no Future method may raise."""

    def __init__(self, case):
        self.case = case

    def setup(self):
        ctx = Ctx()
        tap()
        n0 = len(instr.TRACKED)
        w = FW(ctx, self.case["layers"], None, set(), inline=False)
        ctx.threads = [t for t in instr.TRACKED[n0:]]
        ctx.w = w
        return ctx

    def victim_role(self, ctx):
        return ctx.threads[-1].vf_role if ctx.threads else "T"

    def start_victim(self, ctx):
        def trig():
            ctx.w.submit(0, 0)
            ctx.w.submit(1, 0)
        return ctx.actor("T", trig).go()

    def intervene(self, ctx):
        try:
            ctx.w.top.shutdown(False)
        except instr.DeadlockBroken:
            raise
        except BaseException as e:
            ctx.w.api_errors.append(("shutdown", None, e))

    def finish(self, ctx):
        instr.advance(1.0)
        w = ctx.w
        for rec in w.subs:
            for api in ("cancel", "done", "running", "cancelled", "add_done_callback"):
                try:
                    if api == "add_done_callback":
                        rec["f"].add_done_callback(lambda f: None)
                    else:
                        getattr(rec["f"], api)()
                except instr.DeadlockBroken:
                    raise
                except BaseException as e:
                    w.api_errors.append((api, rec["sid"], e))

    def oracle(self, ctx, res, info):
        label = "%s placement=%s" % (self.case["name"], info.get("site"))
        for (api, sid, e) in ctx.w.api_errors:
            if isinstance(e, RuntimeError) and "cannot schedule new futures" in str(e):
                continue
            res.violation("exception-escaped/%s/%s/after-shutdown-race" % (api, type(e).__name__), "%s: %s() raised %r" % (label, api, e))
        for (logger, exc, msg) in TAP.records:
            if not isinstance(exc, (Fault, UserErrorA)) and not (isinstance(exc, RuntimeError) and "cannot schedule" in str(exc)):
                res.violation("internal-exception-logged/%s" % type(exc).__name__, "%s: %s logged %r" % (label, logger, exc))
        if info.get("hit"):
            res.key("sdrace", self.case["name"], info.get("site"))


def run_blockedcount(case, res):
    """blocking throttle with a count callable that starts raising while a submit() is blocked: the user's
    exception must not come out of submit(), the last good value stays in force."""
    ME = instr.ME
    for raise_from in (1, 2, 3, 4, 5, 6):
        begin("vt")
        ctx = Ctx()
        tap()
        try:
            me = ManualExecutor("me")
            ctx.own(me)
            state = {"n": 0}

            def count():
                state["n"] += 1
                if state["n"] >= raise_from and state.get("armed"):
                    raise Fault("count#%d" % state["n"])
                return 1
            n0 = len(instr.TRACKED)
            ex = ctx.own(ME.Executors.with_throttle(me, count, block=True))
            threads = instr.TRACKED[n0:]
            errors = []
            futs = []

            def sub(tag):
                try:
                    futs.append(ex.submit(lambda: tag))
                except instr.DeadlockBroken:
                    raise
                except BaseException as e:
                    errors.append((tag, e))
            for tag in ("a", "b"):
                a = ctx.actor("S" + tag, sub, tag).go()
                drive([a], use_time=False)
                instr.advance(0.05)
            blocked = ctx.actor("Sc", sub, "c").go()
            from ..harness import wait_done_or_blocked
            st = wait_done_or_blocked(blocked, grace=2.0)
            state["armed"] = True   # from now on the count callable raises
            for k in me.pending():
                me.run(k)
            instr.advance(31.0)
            for _ in range(4):
                for k in me.pending():
                    me.run(k)
                instr.advance(31.0)
            res.execs += 1
            check_common(res)
            label = "blocked submit (%s), count callable raises from call %d" % (st, raise_from)
            for tag, e in errors:
                res.violation("exception-escaped/submit/%s" % type(e).__name__, "%s: submit(%s) raised %r" % (label, tag, e))
            dead = [t.vf_role for t in threads if not t.is_alive() or t.vf_finished]
            if dead:
                res.violation("worker-thread-died/ThrottleExecutor", "%s: %s dead" % (label, dead))
            if not blocked.finished:
                res.violation("future-stuck/count_fn", "%s: the blocked submit() never returned" % label)
            for f in futs:
                if not f.done():
                    res.violation("future-stuck/count_fn", "%s: a submitted future never completed" % label)
            if st == "parked":
                res.key("blockedcount", raise_from)
        finally:
            end(ctx)


def run_nonfuture(case, res):
    """A flat_map stage whose error function hands back a plain value instead of a future (error_fn=str): that
    submission fails with TypeError; no worker thread dies, later submissions are served."""
    ME = instr.ME
    for base in ("inline", "manual"):
        begin("vt")
        ctx = Ctx()
        try:
            tap()
            n0 = len(instr.TRACKED)
            me = ManualExecutor("me", auto=run_inline if base == "inline" else None)
            ctx.own(me)
            cur = me
            for t in case["stack"].split(">"):
                if t == "flat_map":
                    cur = ME.Executors.with_flat_map(cur, lambda x: ME.futures.f_return(("fm", x)), error_fn=lambda ex: "not a future")
                elif t == "map":
                    cur = ME.Executors.with_map(cur, lambda x: x)
                elif t == "throttle":
                    cur = ME.Executors.with_throttle(cur, 2)
                elif t == "retry":
                    cur = ME.Executors.with_retry(cur, max_attempts=1)
                elif t == "timeout":
                    cur = ME.Executors.with_timeout(cur, 500.0)
                ctx.own(cur)
            threads = [t for t in instr.TRACKED[n0:]]

            def bad():
                raise UserErrorA("callable")
            futs = []
            escaped = []
            for i in range(3):
                try:
                    futs.append(cur.submit(bad))
                except BaseException as e:
                    escaped.append(e)
                instr.advance(0.3)
                for k in me.pending():
                    try:
                        me.run(k)
                    except BaseException as e:
                        escaped.append(e)
                instr.advance(0.3)
            probe = cur.submit(lambda: "ok")
            instr.advance(0.3)
            for k in me.pending():
                me.run(k)
            instr.advance(5.0)
            res.execs += 1
            check_common(res)
            label = "%s over %s delegate" % (case["stack"], base)
            for e in escaped:
                res.violation("exception-escaped/%s" % type(e).__name__, "%s: %r escaped from submit() / the delegate's completing thread" % (label, e))
            for i, f in enumerate(futs):
                o = outcome(f)
                if o[0] == "pending":
                    res.violation("submission-stuck/nonfuture-error_fn", "%s: submission %d (callable failed, error_fn returned a non-future) never completes"
                                  % (label, i))
                elif not (o[0] == "exc" and isinstance(o[1], TypeError)):
                    res.violation("wrong-outcome/nonfuture-error_fn", "%s: submission %d is %s, expected TypeError" % (label, i, outcome_repr(o)))
            if outcome(probe) != ("value", ("fm", "ok")) and outcome(probe)[0] != "value":
                res.violation("probe-stuck/nonfuture-error_fn", "%s: a later, healthy submission is %s" % (label, outcome_repr(outcome(probe))))
            dead = [t.vf_role for t in threads if not t.is_alive() or t.vf_finished]
            if dead:
                res.violation("thread-died/%s" % dead[0].split("-")[0], "%s: worker thread(s) %s ended" % (label, dead))
            res.key("nonfuture", case["stack"], base)
        finally:
            end(ctx)


def run_countseq(case, res):
    """The count callable has changed its answer since construction (e.g. opened a paused executor) and then starts to
    raise: the fault is logged, the executor goes on with the last answer it got and serves what is submitted."""
    begin("vt")
    ctx = Ctx()
    try:
        tap()
        ME = instr.ME
        seq = case["seq"].split(",")
        state = {"n": 0}

        def count():
            i = state["n"]
            state["n"] += 1
            tok = seq[min(i, len(seq) - 1)]
            if tok == "raise":
                raise Fault("count_fn#%d" % i)
            return int(tok)
        me = ManualExecutor("me", auto=run_inline)
        ctx.own(me)
        ex = ctx.own(ME.Executors.with_throttle(me, count))
        last_good = [int(t) for t in seq if t != "raise"][-1]
        futs = []
        # let the executor observe every value of the sequence before the callable starts raising
        for _ in range(len(seq) + 1):
            instr.advance(31.0)
        for i in range(3):
            futs.append(ex.submit(lambda i=i: i))
            instr.advance(31.0)
        instr.advance(65.0)
        res.execs += 1
        check_common(res)
        raised = state["n"] > len(seq) - 1
        if not raised:
            res.inconclusive.append("%s: the count callable was called %d times, it never raised" % (case["name"], state["n"]))
        stuck = [i for i, f in enumerate(futs) if not f.done()]
        if stuck and last_good > 0:
            res.violation("executor-stalled-after-fault/count_fn", "%s: the count callable answered %s and raises since; the last answer was %d, "
                          "yet submissions %s are never served" % (case["name"], seq, last_good, stuck))
        res.key("countseq", case["seq"])
        res.sample({"count_answers": seq, "calls": state["n"], "served": [f.done() for f in futs]}, limit=1)
    finally:
        end(ctx)


def run_late(case, res):
    """The user cancels a combinator's output, then an input finishes / fails: nothing may be raised or logged."""
    F = instr.ME.futures
    comb = case["comb"]
    for how in ("exc", "value", "cancel"):
        for n_first in (0, 1):
            begin("rt")
            ctx = Ctx()
            tap()
            try:
                from ..harness import SpyFuture
                ins = [SpyFuture("in%d" % i) for i in range(3)]
                for f in ins:
                    f.set_running_or_notify_cancel()  # already running: the combinator's cancel requests are refused
                out = {"zip": lambda: F.f_zip(*ins), "and": lambda: F.f_and(*ins), "or": lambda: F.f_or(*ins),
                       "sequence": lambda: F.f_sequence(ins)}[comb]()
                if n_first:
                    ins[0].set_result(1 if comb != "or" else 0)
                out.cancel()
                errs = []
                for f in ins:
                    if f.done():
                        continue
                    try:
                        if how == "exc":
                            f.set_exception(UserErrorA("late"))
                        elif how == "value":
                            f.set_result(2)
                        else:
                            f.cancel()
                    except cf.InvalidStateError:
                        pass
                    except BaseException as e:
                        errs.append(e)
                res.execs += 1
                label = "f_%s output cancelled, then inputs end by %s" % (comb, how)
                for e in errs:
                    res.violation("exception-escaped/set/%s" % type(e).__name__, "%s: %r" % (label, e))
                for (logger, exc, msg) in TAP.records:
                    if not isinstance(exc, (Fault, UserErrorA)):
                        res.violation("internal-exception-logged/%s" % type(exc).__name__, "%s: %s logged %r (%s)" % (label, logger, exc, msg))
                res.key("late", comb, how, n_first)
            finally:
                end(ctx)


def run_irace(case, res):
    from . import c02
    rng = random.Random("c18i/%s/%s" % (case["seed"], case["name"]))

    class Scn(c02.PScenario):
        def oracle(self, ctx, res_, info):
            label = "%s %s|%s placement=%s" % (case["name"], self.a, self.b, info.get("site"))
            for (inv, ret, r, was_done) in ctx.p.cancels:
                if isinstance(r, BaseException):
                    res_.violation("exception-escaped/cancel/%s" % type(r).__name__, "%s: cancel() raised %r" % (label, r))
            for (name, e) in ctx.p.add_errors:
                api = name if name in ("running", "done", "cancelled") else "add_done_callback"
                res_.violation("exception-escaped/%s/%s" % (api, type(e).__name__), "%s: %s() raised %r" % (label, api, e))
            for a in (info.get("victim"), info.get("iact")):
                if a is not None and a.error is not None and not isinstance(a.error, (instr.DeadlockBroken, instr.CaseAbort)):
                    res_.violation("exception-escaped/%s/%s" % (a.role, type(a.error).__name__), "%s: %r" % (label, a.error),
                                   tb=getattr(a, "tb", None))
            if info.get("hit"):
                res_.key("irace", case["entry"], case["ckind"], self.a, self.b, info.get("site"))
            res_.count("internal_races_judged")

    pairs = [("complete", "cancel"), ("cancel", "complete"), ("complete", "add_cb"), ("cancel", "cancel"), ("query", "complete")]
    for a, b in pairs:
        Sweep(Scn(case["entry"], case["ckind"], a, b), res, "vt", case["name"], gran=case.get("gran")).run(case["cap"], rng, per_site=2)
        if harness.need_recycle():
            return


class QScenario(object):
    """A throttle with one slot: a filler holds it, three futures are queued.  Queue operations from two threads
    (cancel of a queued future that is not at the head, submit, completion freeing the slot)."""

    def __init__(self, case):
        self.case = case

    def setup(self):
        ME = instr.ME
        ctx = Ctx()
        tap()
        n0 = len(instr.TRACKED)
        ctx.me = ManualExecutor("me")
        ctx.own(ctx.me)
        ctx.ex = ctx.own(ME.Executors.with_throttle(ctx.me, 1))
        ctx.threads = [t for t in instr.TRACKED[n0:]]
        ctx.futs = [ctx.ex.submit(lambda: "filler")]
        instr.advance(0.05)
        for i in range(3):
            ctx.futs.append(ctx.ex.submit(lambda i=i: i))
        instr.advance(0.05)
        ctx.errors = []
        return ctx

    def act(self, ctx, what):
        try:
            if what == "submit":
                ctx.futs.append(ctx.ex.submit(lambda: "late"))
            elif what == "cancel_queued_last":
                ctx.futs[3].cancel()
            elif what == "cancel_queued_first":
                ctx.futs[1].cancel()
            elif what == "complete":
                p = ctx.me.pending()
                if p:
                    ctx.me.run(p[0])
        except (instr.DeadlockBroken, instr.CaseAbort):
            raise
        except BaseException as e:
            ctx.errors.append((what, e))

    def victim_role(self, ctx):
        return "V"

    def start_victim(self, ctx):
        return ctx.actor("V", self.act, ctx, self.case["a"]).go()

    def intervene(self, ctx):
        self.act(ctx, self.case["b"])

    def finish(self, ctx):
        for _ in range(8):
            instr.advance(2.5)
            p = ctx.me.pending()
            if not p:
                break
            for k in p:
                ctx.me.run(k)
        instr.advance(2.5)

    def oracle(self, ctx, res, info):
        label = "%s placement=%s" % (self.case["name"], info.get("site"))
        for what, e in ctx.errors:
            res.violation("exception-escaped/%s/%s" % ("cancel" if "cancel" in what else what, type(e).__name__),
                          "%s: %s raised %r" % (label, what, e))
        for f in ctx.futs:
            if not f.done():
                res.violation("queued-future-stuck", "%s: a queued future never completed after the queue operations" % label)
                break
        if info.get("hit"):
            res.key("iqueue", self.case["a"], self.case["b"], info.get("site"))
        res.count("queue_races_judged")


def run_case(case, res):
    harness.JUDGE_CALLBACK_ESCAPES[0] = True
    if case["kind"] == "nonfuture":
        return run_nonfuture(case, res)
    if case["kind"] == "countseq":
        return run_countseq(case, res)
    if case["kind"] == "irace":
        return run_irace(case, res)
    if case["kind"] == "iqueue":
        rng = random.Random("c18q/%s/%s" % (case["seed"], case["name"]))
        Sweep(QScenario(case), res, "vt", case["name"]).run(case["cap"], rng, per_site=2)
        return
    k = case["kind"]
    rng = random.Random("c18/%s/%s" % (case["seed"], case["name"]))
    if k == "plan":
        run_plan(case, res)
    elif k == "sweep":
        Sweep(SScenario(case), res, "vt", case["name"]).run(case["cap"], rng, per_site=2)
    elif k == "depth2":
        Sweep2(D2Scenario(case), res, "vt", case["name"]).run(14, 10, rng, per_site=1, budget=case["budget"])
    elif k == "blockedcount":
        run_blockedcount(case, res)
    elif k == "wsweep":
        Sweep(WScenario(case), res, "vt", case["name"]).run(case["cap"], rng, per_site=3)
    elif k == "sdrace":
        Sweep(SDScenario(case), res, "vt", case["name"]).run(case["cap"], rng, per_site=2)
    else:
        run_late(case, res)
