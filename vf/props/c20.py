"""C20 - metrics: gauges return to reality at quiescence, counters match events.

A stand-in prometheus_client is first on the import path (MORE_EXECUTORS_PROMETHEUS=1)
so that the library's metrics code runs.  Every case uses its own executor name.
Histories over single layers (exact per-layer equalities) and stacks (conservation:
all gauges back to zero, never negative), in virtual time over a manual delegate."""
import random
import concurrent.futures as cf
import itertools

from .. import instr, harness, stacks
from ..harness import (SpyFuture, Sweep, Ctx, ManualExecutor, call, check_common, begin, end, drive, Recorded, UserErrorA, OtherError,
                       outcome)
from ..instr import LOG, TR, LM, Inconclusive

TITLE = "metrics"
FAKEPROM = True
RULE = ("one execution = one executor layer (or stack) with a unique name over a manual delegate, driven by a seeded history of "
        "submit / complete / fail / cancel (queued, between retries, in flight, polling) / timeout expiry / shutdown, the "
        "registry compared with ground truth at every quiescent point; or one placement of a pause inside a client operation "
        "while the worker runs (transient negatives); distinct & non-trivial = (layer, history signature | placement site) with at "
        "least one gauge that moved")
REQUIRED = ["line_events", "lock_acquisitions", "vevent_waits"]
LAYERS = ["map", "flat_map", "retry", "poll", "throttle", "timeout", "cos", "sync"]
D = 0.3
_counter = itertools.count()
# one deterministic history per kind of event the property names
DIRECTED = {
    "retry": [["submit", "fail", "cancel"], ["submit", "cancel"], ["submit", "fail", "wait", "complete"], ["submit", "fail", "wait", "fail", "wait", "fail"],
              ["submit", "submit", "fail", "cancel", "complete"], ["submit", "cancel_inner"]],
    "throttle": [["submit", "submit", "submit", "submit", "cancel_last"], ["submit", "submit", "submit", "cancel_last", "complete", "complete"],
                 ["submit", "submit", "submit", "complete", "cancel"], ["submit", "cancel_inner"]],
    "timeout": [["submit", "wait_long"], ["submit", "complete", "wait_long"], ["submit", "submit", "cancel", "wait_long"]],
    "poll": [["submit", "complete", "wait"], ["submit", "complete", "poll_raise", "submit", "complete", "wait"], ["submit", "complete", "cancel"],
             ["submit", "fail"]],
    "cos": [["submit", "submit"], ["submit", "complete", "submit"]],
    "map": [["submit", "complete"], ["submit", "fail"], ["submit", "cancel"], ["submit", "cancel_inner"]],
    "flat_map": [["submit", "complete"], ["submit", "fail"], ["submit", "cancel"]],
}


def prom():
    import prometheus_client
    return prometheus_client


def cases(tier, seed):
    out = []
    n = 10 if tier == "quick" else 1500
    for layer in LAYERS:
        for i in range(n):
            out.append({"name": "metrics.history/%s/%d" % (layer, i), "kind": "hist", "layer": layer, "idx": i,
                        "steps": 14 if tier == "quick" else 30})
    for layer, hists in DIRECTED.items():
        for hi, h in enumerate(hists):
            out.append({"name": "metrics.directed/%s/%d" % (layer, hi), "kind": "hist", "layer": layer, "idx": 1000 + hi,
                        "steps": len(h), "script": h})
    for i in range(20 if tier == "quick" else 4000):
        out.append({"name": "metrics.stack/%d" % i, "kind": "stack", "idx": i, "steps": 14})
    cap = 16 if tier == "quick" else None
    for layer in ("retry", "throttle", "poll", "timeout", "map"):
        for op in ("submit", "complete", "cancel", "fail"):
            out.append({"name": "metrics.sweep/%s/%s" % (layer, op), "kind": "sweep", "layer": layer, "op": op, "cap": cap})
            # ... and with a second client operation at the placement instead of just letting the workers run
            for op2 in ("submit", "complete", "cancel", "fail"):
                out.append({"name": "metrics.sweep/%s/%s|%s" % (layer, op, op2), "kind": "sweep", "layer": layer, "op": op, "op2": op2, "cap": cap})
    out.append({"name": "metrics.sweep-worker/timeout", "kind": "wsweep", "cap": 40 if tier == "quick" else None})
    # an internal thread (suspended between picking a job and handing it over, re-queueing, polling ...) | client operation
    for layer in ("retry", "throttle", "poll"):
        for trig in ("submit", "fail", "complete"):
            for op2 in ("cancel_last", "cancel", "complete", "submit"):
                out.append({"name": "metrics.sweep-worker/%s/%s|%s" % (layer, trig, op2), "kind": "wsweep2", "layer": layer, "trig": trig,
                            "op2": op2, "cap": None})
    for layer in ("map", "flat_map", "retry", "poll", "throttle", "timeout", "cos"):
        out.append({"name": "metrics.shutdown-raises/%s" % layer, "kind": "sdraises", "layer": layer})
    for layer in ("map", "retry", "poll", "throttle", "timeout", "cos", "flat_map"):
        out.append({"name": "metrics.double-shutdown/%s" % layer, "kind": "dblsd", "layer": layer, "cap": 30 if tier == "quick" else None})
    out.append({"name": "metrics.precancelled/cos", "kind": "precancelled"})
    for comb in ("f_map", "f_flat_map", "f_zip", "f_sequence", "f_and", "f_or", "f_apply", "f_proxy", "f_nocancel", "f_timeout", "f_traverse"):
        out.append({"name": "metrics.combinators/%s" % comb, "kind": "combinators", "comb": comb})
    out.append({"name": "metrics.ctor-raises", "kind": "ctorraises"})
    out.append({"name": "metrics.engaged", "kind": "engaged"})
    return out


class MW(object):
    def __init__(self, ctx, layers, uid):
        ME = instr.ME
        self.ctx = ctx
        self.layers = layers
        self.name = "c20-%s-%d-%d" % ("".join(l[0] for l in layers), uid, next(_counter))
        self.me = ManualExecutor("me")
        ctx.own(self.me)
        self.poll_calls = 0
        self.poll_errors = 0
        self.poll_raise = False
        self.timeout = 3.0
        cur = self.me
        self.execs = []
        for k, t in enumerate(layers):
            kw = {"name": self.name}
            if t == "map":
                cur = ME.Executors.with_map(cur, lambda x: x, **kw)
            elif t == "flat_map":
                cur = ME.Executors.with_flat_map(cur, lambda x: ME.futures.f_return(x), **kw)
            elif t == "retry":
                cur = ME.Executors.with_retry(cur, max_attempts=3, sleep=1.0, exponent=1.0, **kw)
            elif t == "poll":
                cur = ME.Executors.with_poll(cur, self._poll, None, 2.0, **kw)
            elif t == "throttle":
                cur = ME.Executors.with_throttle(cur, 2, **kw)
            elif t == "timeout":
                cur = ME.Executors.with_timeout(cur, self.timeout, **kw)
            elif t == "cos":
                cur = ME.Executors.with_cancel_on_shutdown(cur, **kw)
            elif t == "sync":
                cur = ME.Executors.sync(**kw)
            self.execs.append((t, cur))
            ctx.own(cur)
        self.top = cur
        self.futs = []  # records
        self.id_lock = instr._RealLock()
        self.next_id = 0
        self.shut = False
        self.retries = 0
        self.timeouts = 0
        self.sd_cancels = 0
        self.seen_items = 0

    def _poll(self, ds):
        self.poll_calls += 1
        if self.poll_raise and ds:
            self.poll_errors += 1
            self.poll_raise = False
            raise OtherError("poll")
        for d in ds:
            d.yield_result(d.result)
        return None

    def submit(self, fail=False):
        def job():
            if fail:
                raise UserErrorA("job")
            return 1
        with self.id_lock:
            jid = self.next_id
            self.next_id += 1
        job.vf_id = "job%d" % jid
        try:
            f = self.top.submit(job)
        except RuntimeError:
            return None
        rec = {"f": f, "id": jid}
        self.futs.append(rec)
        return rec

    def items_pending(self):
        return self.me.pending()

    def scan_retries(self):
        # re-submissions = delegate arrivals beyond the first per submission
        per = {}
        for it in self.me.items:
            fid = getattr(it[1], "vf_id", None)
            per[fid] = per.get(fid, 0) + 1
        return sum(max(0, n - 1) for n in per.values())

    def expect(self):
        """Ground truth for a single layer (self.layers has one element)."""
        t = self.layers[0]
        N = self.name
        e = {}
        tl = {"cos": "cancel_on_shutdown"}.get(t, t)
        fs = [r["f"] for r in self.futs]
        if t != "cos":
            typ = t
            e[("future_total", typ)] = len(fs)
            e[("future_inprogress", typ)] = sum(1 for f in fs if not f.done())
            e[("future_cancel", typ)] = sum(1 for f in fs if f.cancelled())
            e[("future_error", typ)] = sum(1 for f in fs if f.done() and not f.cancelled() and f.exception() is not None)
        e[("exec_total", tl)] = 1
        e[("exec_inprogress", tl)] = 0 if self.shut else 1
        if t == "retry":
            e[("retry_queue",)] = sum(1 for f in fs if not f.done())
            e[("retry_total",)] = self.scan_retries()
        if t == "throttle":
            handed = set(getattr(it[1], "vf_id", None) for it in self.me.items)
            e[("throttle_queue",)] = sum(1 for r in self.futs if not r["f"].done() and ("job%d" % r["id"]) not in handed)
        if t == "poll":
            e[("poll_total",)] = self.poll_calls
            e[("poll_error",)] = self.poll_errors
        if t == "timeout":
            e[("timeout",)] = self.timeouts
        if t == "cos":
            e[("shutdown_cancel",)] = self.sd_cancels
        return e

    def compare(self, res, label, final=False):
        P = prom()
        N = self.name
        moved = False
        if len(self.layers) == 1:
            for key, want in self.expect().items():
                name = key[0]
                labels = {"executor": N}
                if len(key) > 1:
                    labels["type"] = key[1]
                got = P.get(name, **labels)
                if got is None:
                    got = 0
                else:
                    moved = True
                if name in ("poll_total", "poll_error") and not final:
                    continue  # a poll may be in progress between quiescent points only in real time; checked at the end
                if got != want:
                    res.violation("metric-mismatch/%s/%s" % (name, self.layers[0]),
                                  "%s: %s%s = %s, ground truth %s" % (label, name, labels, got, want))
        # conservation for any stack: nothing negative, and everything back to zero when all is done
        all_done = all(r["f"].done() for r in self.futs)
        for key, (value, mn, is_gauge) in P.dump(N).items():
            moved = True
            if is_gauge and mn < 0:
                res.violation("gauge-negative/%s" % key[0], "%s: gauge %s went down to %s" % (label, key, mn))
            if is_gauge and all_done and key[0] in ("future_inprogress", "retry_queue", "throttle_queue") and value != 0 and final:
                res.violation("gauge-not-zero/%s" % key[0], "%s: every future is done but %s = %s" % (label, key, value))
            if is_gauge and key[0] == "exec_inprogress" and self.shut and value != 0:
                res.violation("gauge-not-zero/exec_inprogress", "%s: executors shut down but %s = %s" % (label, key, value))
        res.count("registry_comparisons")
        return moved


def do_step(w, rng, op):
    me = w.me
    if op == "submit":
        w.submit(fail=False)
    elif op == "complete":
        p = w.items_pending()
        if p:
            me.run(rng.choice(p))
    elif op == "complete_last":
        p = w.items_pending()
        if p:
            me.run(p[-1])
    elif op == "fail":
        p = w.items_pending()
        if p:
            me.fail(rng.choice(p), UserErrorA("attempt"))
    elif op == "fail_cancelled_error":
        # the work *fails* with a CancelledError instance (e.g. it waited for a cancelled future of its own): a failure
        p = w.items_pending()
        if p:
            me.fail(rng.choice(p), cf.CancelledError("raised by the job"))
    elif op == "cancel":
        cands = [r for r in w.futs if not r["f"].done()]
        if cands:
            rng.choice(cands)["f"].cancel()
    elif op == "cancel_last":
        cands = [r for r in w.futs if not r["f"].done()]
        if cands:
            cands[-1]["f"].cancel()
    elif op == "cancel_inner":
        p = w.items_pending()
        if p:
            me.fut(rng.choice(p)).cancel()
    elif op == "poll_raise":
        w.poll_raise = True
    elif op == "wait":
        pass


def count_timeouts(w):
    """timeout cancels that succeeded: spy cancels issued by the timeout thread returning True"""
    n = 0
    evs = LOG.events
    for i, e in enumerate(evs):
        if e[3] == "spy.cancel.ret" and e[2].startswith("W:TimeoutExecutor") and e[4].get("value"):
            n += 1
    return n


def run_hist(case, res, layers=None):
    rng = random.Random("c20/%s/%s" % (case["seed"], case["name"]))
    layers = layers or [case["layer"]]
    begin("vt")
    ctx = Ctx()
    try:
        w = MW(ctx, layers, case["idx"])
        label = case["name"] + "(" + w.name + ")"
        sig = []
        ops = ["submit", "submit", "submit", "complete", "complete", "fail", "cancel", "cancel_inner", "wait", "fail_cancelled_error"]
        if "poll" in layers:
            ops.append("poll_raise")
        if layers == ["sync"]:
            ops = ["submit", "submit_fail"]
        for step in range(case["steps"]):
            op = case["script"][step] if case.get("script") else rng.choice(ops)
            sig.append(op[:2] + op[-1])
            if op == "submit_fail":
                w.submit(fail=True)
            else:
                do_step(w, rng, op)
            instr.advance(5.0 if op == "wait_long" else rng.choice([D, D, 1.2, 3.5]) if op == "wait" else D)
            if LM.deadlocks:
                break
            w.timeouts = count_timeouts(w)
            w.compare(res, label + " after step %d (%s)" % (step, op))
        # finish everything, then shut down
        for _ in range(6):
            for k in w.items_pending():
                w.me.run(k)
            instr.advance(2.5)
        w.timeouts = count_timeouts(w)
        w.compare(res, label + " drained", final=True)
        n_before = len([e for e in LOG.events if e[3] == "spy.cancel.ret" and e[4].get("effective")])
        pend = [r for r in w.futs if not r["f"].done()]
        a = ctx.actor("S", w.top.shutdown, True).go()
        drive([a], use_time=False)
        w.shut = True
        instr.advance(D)
        w.sd_cancels = len([e for e in LOG.events if e[3] == "spy.cancel.ret" and e[4].get("effective")]) - n_before
        moved = w.compare(res, label + " after shutdown", final=True)
        res.execs += 1
        check_common(res)
        if moved:
            res.key(">".join(layers), "".join(sig))
        P = prom()
        res.sample({"layers": layers, "executor_name": w.name, "history": "".join(sig),
                    "registry": {"/".join(str(x) for x in k): v[:2] for k, v in list(P.dump(w.name).items())[:12]}}, limit=1)
    finally:
        end(ctx)


def run_stack(case, res):
    rng = random.Random("c20s/%s/%s" % (case["seed"], case["idx"]))
    layers = [rng.choice(LAYERS[:-1]) for _ in range(rng.randint(2, 4))]
    run_hist(case, res, layers)


class MScenario(object):
    def __init__(self, case):
        self.case = case

    def setup(self):
        ctx = Ctx()
        w = MW(ctx, [self.case["layer"]], 0)
        ctx.w = w
        w.submit()
        w.submit()
        w.submit()
        instr.advance(D)
        return ctx

    def victim_role(self, ctx):
        return "V"

    def start_victim(self, ctx):
        rng = random.Random(1)
        return ctx.actor("V", do_step, ctx.w, rng, self.case["op"]).go()

    def intervene(self, ctx):
        op2 = self.case.get("op2")
        if op2:
            # a submit() suspended after the delegate accepted the callable has an item the second actor can end
            do_step(ctx.w, random.Random(2), op2 if op2 != "complete" else "complete_last")
            return
        me = ctx.actors[-1]
        me.external = True
        # let the worker threads run while the client operation is suspended
        try:
            instr.settle(2.0)
        except Inconclusive:
            pass

    def finish(self, ctx):
        w = ctx.w
        for _ in range(5):
            for k in w.items_pending():
                w.me.run(k)
            instr.advance(2.5)

    def oracle(self, ctx, res, info):
        w = ctx.w
        w.timeouts = count_timeouts(w)
        w.compare(res, "%s placement=%s" % (self.case["name"], info.get("site")), final=True)
        if info.get("hit"):
            res.key("sweep", self.case["name"], info.get("site"))


class DSScenario(object):
    """shutdown() | shutdown(): the executors-in-use gauge goes down exactly once."""

    def __init__(self, case):
        self.case = case

    def setup(self):
        ctx = Ctx()
        ctx.w = MW(ctx, [self.case["layer"]], 0)
        ctx.w.submit()
        instr.advance(D)
        return ctx

    def victim_role(self, ctx):
        return "V"

    def start_victim(self, ctx):
        return ctx.actor("V", ctx.w.top.shutdown, False).go()

    def intervene(self, ctx):
        ctx.w.top.shutdown(False)

    def finish(self, ctx):
        ctx.w.shut = True
        for k in ctx.w.items_pending():
            ctx.w.me.run(k)
        instr.advance(3.0)

    def oracle(self, ctx, res, info):
        w = ctx.w
        P = prom()
        label = "%s placement=%s" % (self.case["name"], info.get("site"))
        for key, (value, mn, is_gauge) in P.dump(w.name).items():
            if key[0] == "exec_inprogress" and (value != 0 or mn < 0):
                res.violation("gauge-negative/exec_inprogress" if mn < 0 else "gauge-not-zero/exec_inprogress",
                              "%s: after two racing shutdown() calls %s = %s (minimum %s)" % (label, key, value, mn))
        if info.get("hit"):
            res.key("dblsd", self.case["layer"], info.get("site"))


def run_combinators(case, res):
    """Plain use of a future combinator, k times, everything finished and dropped: the gauges of the library's
    internal executors are back where they were (nothing of it is in progress or in use any more)."""
    import gc
    F = instr.ME.futures
    P = prom()
    comb = case["comb"]

    def use(outcome_kind):
        ins = [SpyFuture("in%d" % i) for i in range(3)]
        if comb == "f_map":
            out = F.f_map(ins[0], lambda x: x)
        elif comb == "f_flat_map":
            out = F.f_flat_map(ins[0], lambda x: F.f_return(x))
        elif comb == "f_zip":
            out = F.f_zip(*ins)
        elif comb == "f_sequence":
            out = F.f_sequence(ins)
        elif comb == "f_traverse":
            out = F.f_traverse(lambda i: ins[i], range(3))
        elif comb == "f_and":
            out = F.f_and(*ins)
        elif comb == "f_or":
            out = F.f_or(*ins)
        elif comb == "f_apply":
            out = F.f_apply(ins[0], ins[1], k=ins[2])
        elif comb == "f_proxy":
            out = F.f_proxy(ins[0])
        elif comb == "f_nocancel":
            out = F.f_nocancel(ins[0])
        else:
            out = F.f_timeout(ins[0], 50.0)
        if outcome_kind == "cancel":
            out.cancel()
        for i, f in enumerate(ins):
            if f.done():
                continue
            if outcome_kind == "exc" and i == 0:
                f.set_exception(UserErrorA("x"))
            else:
                f.set_result((lambda *a, **k: 1) if (comb == "f_apply" and i == 0) else 1)
        return out

    def gauges():
        out = {}
        for key, (value, mn, is_gauge) in P.dump(None).items():
            if is_gauge and dict(key[1:]).get("executor") == "internal":
                out[key] = value
        return out
    begin("vt")
    ctx = Ctx()
    try:
        use("value")  # (lazily created internal executors exist from now on)
        instr.advance(D)
        gc.collect()
        base = gauges()
        for k, kind in enumerate(["value", "exc", "cancel", "value", "value", "exc"]):
            o = use(kind)
            del o
        instr.advance(D)
        gc.collect()
        instr.advance(D)
        after = gauges()
        res.execs += 1
        check_common(res)
        for key in sorted(set(base) | set(after)):
            b, a = base.get(key, 0), after.get(key, 0)
            if a != b:
                res.violation("gauge-grows-with-use/%s" % key[0],
                              "%s used 6 times, every future finished and dropped: gauge %s went from %s to %s (it counts things that no "
                              "longer exist)" % (comb, key, b, a))
        res.key("combinators", comb)
        res.count("gauges_compared", len(after))
        res.sample({"combinator": comb, "gauges_after_use": {"%s%s" % (k[0], dict(k[1:])): v for k, v in sorted(after.items())}}, limit=1)
    finally:
        end(ctx)


def run_precancelled(case, res):
    """The wrapped executor hands back futures that are already cancelled / finished: shutdown cancels
    nothing, so shutdown_cancel stays 0."""
    for how in ("cancelled", "done", "mixed"):
        begin("vt")
        ctx = Ctx()
        try:
            w = MW(ctx, ["cos"], 0)

            def auto(me, idx):
                if how == "cancelled" or (how == "mixed" and idx % 2 == 0):
                    me.fut(idx).cancel()
                elif how == "done":
                    me.run(idx)
            w.me.auto = auto
            for _ in range(4):
                w.submit()
            instr.advance(D)
            before = sum(getattr(it[0], "effective_cancels", 0) for it in w.me.items)
            a = ctx.actor("S", w.top.shutdown, True).go()
            drive([a], use_time=False)
            w.shut = True
            instr.advance(D)
            w.sd_cancels = sum(getattr(it[0], "effective_cancels", 0) for it in w.me.items) - before
            res.execs += 1
            check_common(res)
            w.compare(res, "%s/%s" % (case["name"], how), final=True)
            res.key("precancelled", how)
        finally:
            end(ctx)


class TWScenario(object):
    """The timeout thread is suspended (as if busy) while the owner cancels another future and that
    future's deadline passes: the timeout counter must only count cancels the timeout really caused."""

    def __init__(self, case):
        self.case = case

    def setup(self):
        ctx = Ctx()
        n0 = len(instr.TRACKED)
        w = MW(ctx, ["timeout"], 0)
        ctx.w = w
        ctx.threads = [t for t in instr.TRACKED[n0:]]
        w.submit()
        instr.advance(1.0)
        w.submit()   # deadline one second after the first one's
        instr.advance(0.05)
        return ctx

    def victim_role(self, ctx):
        return ctx.threads[-1].vf_role

    def start_victim(self, ctx):
        from .c04 import fire_next_timer
        return ctx.actor("T", fire_next_timer).go()   # first deadline: the worker starts cancelling A

    def intervene(self, ctx):
        w = ctx.w
        w.futs[1]["f"].cancel()            # the owner cancels B ...
        with instr.CV:
            instr.CLOCK.now += 2.0         # ... and B's deadline passes while the worker is still busy
            instr.CV.notify_all()

    def finish(self, ctx):
        instr.advance(5.0)

    def oracle(self, ctx, res, info):
        w = ctx.w
        w.timeouts = count_timeouts(w)
        w.compare(res, "%s placement=%s" % (self.case["name"], info.get("site")), final=True)
        if info.get("hit"):
            res.key("wsweep", info.get("site"))


class WorkerScenario(object):
    def __init__(self, case):
        self.case = case

    def setup(self):
        ctx = Ctx()
        n0 = len(instr.TRACKED)
        w = MW(ctx, [self.case["layer"]], 0)
        ctx.w = w
        ctx.threads = [t for t in instr.TRACKED[n0:]]
        w.submit()
        w.submit()
        instr.advance(D)
        return ctx

    def victim_role(self, ctx):
        return ctx.threads[-1].vf_role

    def start_victim(self, ctx):
        return ctx.actor("T", do_step, ctx.w, random.Random(1), self.case["trig"]).go()

    def intervene(self, ctx):
        do_step(ctx.w, random.Random(2), self.case["op2"])

    def finish(self, ctx):
        w = ctx.w
        for _ in range(5):
            for k in w.items_pending():
                w.me.run(k)
            instr.advance(2.5)

    def oracle(self, ctx, res, info):
        w = ctx.w
        w.timeouts = count_timeouts(w)
        w.compare(res, "%s placement=%s" % (self.case["name"], info.get("site")), final=True)
        if info.get("hit"):
            res.key("wsweep2", self.case["name"], info.get("site"))


def run_sdraises(case, res):
    """The wrapped executor's shutdown() raises (an old-style delegate that does not know cancel_futures): the
    exception is the caller's, and the layer that was shut down is no longer counted as in use."""
    begin("vt")
    ctx = Ctx()
    try:
        w = MW(ctx, [case["layer"]], 0)

        def bad_shutdown(wait=True):
            raise AssertionError("unreachable")
        real = w.me.shutdown

        def old_style(wait=True):  # (no **kwargs: TypeError for cancel_futures=...)
            return real(wait)
        w.me.shutdown = old_style
        w.submit()
        instr.advance(D)
        for k in w.items_pending():
            w.me.run(k)
        instr.advance(D)
        raised = None
        try:
            w.top.shutdown(True, cancel_futures=True)
        except TypeError as e:
            raised = e
        w.shut = True
        instr.advance(D)
        res.execs += 1
        check_common(res)
        if raised is None:
            res.count("sdraises.delegate_did_not_raise")
        w.me.shutdown = real
        w.compare(res, case["name"], final=True)
        try:
            w.top.shutdown(True)
        except Exception:
            pass
        w.compare(res, case["name"] + "/again", final=True)
        res.key("sdraises", case["layer"], raised is not None)
    finally:
        end(ctx)


def run_ctorraises(case, res):
    """A constructor call that is refused creates no executor: nothing is counted as in use (or as created)."""
    ME = instr.ME
    P = prom()
    begin("vt")
    ctx = Ctx()
    try:
        def snap():
            return {k: v[0] for k, v in P.dump(None).items() if k[0] in ("exec_inprogress", "exec_total")}
        before = snap()
        attempts = [("thread_pool(max_workers=0)", lambda: ME.Executors.thread_pool(max_workers=0, name="ctor")),
                    ("thread_pool(max_workers=-1)", lambda: ME.Executors.thread_pool(max_workers=-1, name="ctor")),
                    ("thread_pool(initializer=3)", lambda: ME.Executors.thread_pool(max_workers=1, initializer=3, name="ctor")),
                    ("with_retry(max_attempts='x') ", lambda: None)]
        refused = 0
        for label, mk in attempts:
            try:
                ex = mk()
                if ex is not None:
                    ex.shutdown(True)
            except (ValueError, TypeError):
                refused += 1
        after = snap()
        res.execs += 1
        for k in sorted(set(before) | set(after)):
            if dict(k[1:]).get("executor") != "ctor":
                continue
            b, a = before.get(k, 0), after.get(k, 0)
            if k[0] == "exec_inprogress" and a != b:
                res.violation("gauge-counts-refused-constructor/%s" % dict(k[1:]).get("type"),
                              "%d constructor calls were refused, yet %s went from %s to %s" % (refused, k, b, a))
        if not refused:
            res.inconclusive.append("no constructor call was refused")
        res.key("ctorraises", refused)
    finally:
        end(ctx)


def run_engaged(case, res):
    """The metrics code must really be the prometheus variant (engagement gate)."""
    begin("rt")
    ctx = Ctx()
    try:
        from more_executors._impl import metrics as M
        res.execs += 1
        if type(M.metrics).__name__ != "PrometheusMetrics":
            res.inconclusive.append("metrics backend is %s, not PrometheusMetrics: stand-in prometheus_client not picked up" % type(M.metrics).__name__)
        P = prom()
        res.count("metric_families_registered", len(P.REG))
        res.key("engaged", len(P.REG))
        res.key("engaged2", type(M.metrics).__name__)
    finally:
        end(ctx)


def run_case(case, res):
    k = case["kind"]
    if k == "hist":
        run_hist(case, res)
    elif k == "stack":
        run_stack(case, res)
    elif k == "engaged":
        run_engaged(case, res)
    elif k == "dblsd":
        rng = random.Random("c20d/%s/%s" % (case["seed"], case["name"]))
        Sweep(DSScenario(case), res, "vt", case["name"]).run(case["cap"], rng, per_site=2)
    elif k == "precancelled":
        run_precancelled(case, res)
    elif k == "combinators":
        run_combinators(case, res)
    elif k == "wsweep2":
        Sweep(WorkerScenario(case), res, "vt", case["name"]).run(case["cap"], random.Random("c20w/%s" % case["name"]), per_site=2)
    elif k == "sdraises":
        run_sdraises(case, res)
    elif k == "ctorraises":
        run_ctorraises(case, res)
    elif k == "wsweep":
        rng = random.Random("c20w/%s" % case["seed"])
        Sweep(TWScenario(case), res, "vt", case["name"]).run(case["cap"], rng, per_site=3)
    else:
        rng = random.Random("c20/%s/%s" % (case["seed"], case["name"]))
        Sweep(MScenario(case), res, "vt", case["name"]).run(case["cap"], rng, per_site=2)
