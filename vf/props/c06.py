"""C06 - cancel: True means the work never starts; it stops retries; it propagates.

Stacks over a manual delegate in virtual time.  "The callable starts" = the harness
(playing the delegate's worker) finds the item's future not cancelled and runs it.

* ``cancel.point``    stack x stage of the future's life (queued, handed over, running,
                      between retries, polling, done) x single / repeated cancel
* ``handover.cancel`` placement sweeps: hand-over paths (retry submit thread, throttle
                      hand-over thread, delegate callbacks, poll registration) | cancel,
                      and cancel | completion / timer
* ``retry.depth2``    two directed preemptions: (delegate callback | cancel) then
                      (retry submit thread | cancel)
* ``comb.cancel``     output cancel fans out to flat-mapped inner futures / combinator
                      inputs; f_nocancel shields
"""
import random
import itertools

from .. import instr, harness, stacks
from ..harness import (Sweep, Sweep2, SweepNested, Ctx, ManualExecutor, SpyFuture, call, check_common, begin, end, drive,
                       Recorded, UserErrorA, outcome, outcome_repr)
from ..instr import LOG, TR, LM, Inconclusive

TITLE = "cancel semantics"
RULE = ("one execution = one stack over a manual delegate with the target future brought to one life stage, then cancel() "
        "(once / twice / from two threads), optionally at one placement inside a hand-over path (depth 1) or two placements "
        "(depth 2, retry); distinct & non-trivial = (stack, stage, placement site(s)) where a cancel() call overlapped or "
        "followed a hand-over of the target future")
REQUIRED = ["line_events", "lock_acquisitions", "vevent_waits"]
SINGLE = ["map", "flat_map", "retry", "poll", "throttle", "timeout", "cos"]
STAGES = ["queued", "pending", "running", "backoff", "polling", "done"]
D = 0.3


def layer_specs(layers):
    out = []
    for k, t in enumerate(layers):
        L = {"t": t, "k": k}
        if t == "retry":
            L.update(max_attempts=3, sleep=0.5, exponent=1.0)
        if t == "throttle":
            L.update(count=1)
        if t == "poll":
            L.update(interval=5.0, mode="second_call", cancel_fn="consent")
        if t == "timeout":
            L.update(timeout=500.0)
        out.append(L)
    return out


def cases(tier, seed):
    out = []
    rng = random.Random("c06/%s" % seed)
    pairs = [list(p) for p in itertools.product(SINGLE, SINGLE)]
    triples = [list(p) for p in itertools.product(SINGLE, SINGLE, SINGLE)]
    quads = [list(p) for p in itertools.product(SINGLE, repeat=4)]
    if tier == "quick":
        st = [[t] for t in SINGLE] + rng.sample(pairs, 16) + rng.sample(triples, 8) + rng.sample(quads, 4)
    else:
        st = [[t] for t in SINGLE] + pairs + rng.sample(triples, 120) + rng.sample(quads, 60)
    for layers in st:
        out.append({"name": "cancel.point/%s" % ">".join(layers), "kind": "point", "layers": layers})
    cap = 18 if tier == "quick" else None
    hs = [["retry"], ["throttle"], ["poll"], ["map"], ["flat_map"], ["timeout"], ["map", "retry"], ["retry", "map"], ["throttle", "retry"],
          ["retry", "throttle"], ["poll", "retry"], ["cos", "retry"]]
    if tier == "thorough":
        hs += pairs
        hs = [list(x) for x in set(tuple(h) for h in hs)]
    for layers in hs:
        for stage in ("pending", "backoff", "queued", "polling", "running"):
            if not stage_possible(layers, stage):
                continue
            for direction in ("path|cancel", "cancel|path"):
                out.append({"name": "handover.cancel/%s/%s/%s" % (">".join(layers), stage, direction), "kind": "sweep",
                            "layers": layers, "stage": stage, "dir": direction, "cap": cap})
    for policy in ("exc", "value"):
        for first in ("fail", "complete"):
            out.append({"name": "retry.depth2/%s/%s" % (policy, first), "kind": "depth2", "policy": policy, "first": first,
                        "cap_a": 14 if tier == "quick" else None, "cap_b": 10 if tier == "quick" else None,
                        "budget": 150 if tier == "quick" else 4000})
    for layers in (["retry"], ["map", "retry"], ["retry", "map"], ["throttle"], ["retry", "throttle"]):
        for stage in ("pending0", "backoff", "queued"):
            if stage == "queued" and "throttle" not in layers:
                continue
            if stage in ("pending0", "backoff") and "retry" not in layers:
                continue
            full = layers == ["retry"] or tier == "thorough"
            parts = 6 if full else 1
            for part in range(parts):
                out.append({"name": "handover.nested/%s/%s/%d" % (">".join(layers), stage, part), "kind": "nested", "layers": layers,
                            "stage": stage, "cap_a": None if full else 12, "cap_b": None if full else 10,
                            "budget": None if full else 120, "slice": [part, parts]})
    for form in ("executor", "f_flat_map", "f_flat_map_error_fn", "executor>map", "executor>retry", "f_map", "with_map"):
        for who in ("same-thread", "other-thread"):
            for inp in ("value", "exc"):
                if inp == "exc" and form != "f_flat_map_error_fn":
                    continue
                if inp == "value" and form == "f_flat_map_error_fn":
                    continue
                out.append({"name": "fn.cancel/%s/%s/%s" % (form, who, inp), "kind": "fncancel", "form": form, "who": who, "inp": inp})
    # a refused cancel() must leave the future as it was: whatever ends the work afterwards still ends the future
    for layers in ([[t] for t in SINGLE] + [["map", "retry"], ["retry", "map"], ["throttle", "map"], ["flat_map", "timeout"]]):
        out.append({"name": "cancel.refused-then/%s" % ">".join(layers), "kind": "refusedthen", "layers": layers})
    # cancel() racing with a hand-over that the delegate refuses (it was shut down behind the library's back)
    for layers in (["retry"], ["retry", "map"], ["map", "retry"], ["retry", "timeout"], ["throttle"], ["throttle", "retry"]):
        for victim in ("cancel", "worker-refused"):
            out.append({"name": "handover.refused/%s/%s" % (">".join(layers), victim), "kind": "refused", "layers": layers,
                        "victim": victim, "resub": False, "cap": None})
    for comb in ["zip", "and", "or", "sequence", "traverse", "apply", "map", "flat_map", "flat_map_inner", "proxy", "timeout", "nocancel",
                 "zip_nocancel", "or_nocancel"]:
        out.append({"name": "comb.cancel/%s" % comb, "kind": "comb", "comb": comb})
    return out


def stage_possible(layers, stage):
    need = {"queued": "throttle", "backoff": "retry", "polling": "poll"}.get(stage)
    return need is None or need in layers


class CW(object):
    """World: stack over ME; filler submission first (occupies throttle capacity), then the target."""

    def __init__(self, ctx, layers, retry_on_value=False):
        self.ctx, self.layers = ctx, layers
        self.spec = {"base": "me", "layers": layer_specs(layers), "shim_below": ["retry"]}
        self.b = stacks.build(ctx, self.spec)
        self.me, self.top = self.b.base, self.b.top
        self.t0 = instr.vnow()
        self.has = set(layers)
        self.filler = None
        self.cancels = []  # (inv_seq, ret_seq, value|exc, who)
        self.fn = Recorded("target", lambda idx: ("v", "target", idx))
        self.ffn = Recorded("filler", lambda idx: ("v", "filler"))
        if "throttle" in self.has:
            self.filler = call("submit", self.top.submit, self.ffn, _tag="filler")
            instr.advance(0.01)
        self.f = call("submit", self.top.submit, self.fn, _tag="target")
        self.f.add_done_callback(lambda _f: LOG.add("cb.target"))
        instr.advance(0.01)
        self.attempt_exc = []

    def items(self, fid="target"):
        return [k for k, it in enumerate(self.me.items) if getattr(it[1], "vf_id", None) == fid]

    def to_stage(self, stage):
        """Bring the target future to a life stage; returns False if not reachable."""
        me = self.me
        if stage == "queued":
            return not self.items("target") and not self.f.done()
        # release the filler so that the target is handed over
        if self.filler is not None:
            for k in self.items("filler"):
                if not me.fut(k).done():
                    me.complete(k, ("v", "filler"))
            instr.advance(D)
        it = self.items("target")
        if not it:
            return False
        k = it[-1]
        if stage == "pending":
            return not me.fut(k).done()
        if stage == "running":
            return me.mark_running(k)
        if stage == "backoff":
            e = UserErrorA("attempt1")
            self.attempt_exc.append(e)
            me.fail(k, e)
            instr.advance(0.01)
            return not self.f.done() and len(self.items("target")) == len(it)
        if stage == "polling":
            me.complete(k, ("v", "target", 0))
            instr.advance(0.01)
            return not self.f.done()
        if stage == "done":
            me.complete(k, ("v", "target", 0))
            instr.advance(6.0)
            return self.f.done()
        return False

    def do_cancel(self, who="C"):
        inv = LOG.add("cancel.inv", who=who)
        try:
            r = self.f.cancel()
        except instr.DeadlockBroken:
            raise
        except BaseException as e:
            ret = LOG.add("cancel.ret", who=who, exc=type(e).__name__)
            self.cancels.append((inv, ret, e, who))
            return
        ret = LOG.add("cancel.ret", who=who, value=r)
        self.cancels.append((inv, ret, r, who))

    def finish(self):
        """Play the delegate's workers: run whatever is still startable, let time pass."""
        me = self.me
        for _ in range(8):
            instr.advance(D)
            if LM.deadlocks:
                return
            did = False
            for k in me.pending():
                f = me.fut(k)
                if f.running():
                    me.complete(k, ("v", getattr(me.items[k][1], "vf_id", "?"), "ran"))
                else:
                    me.run(k)
                did = True
            instr.advance(0.6)
            if not did and not me.pending():
                if self.f.done():
                    break
        instr.advance(60.0)

    def judge(self, res, label, stage, info=None):
        site = (info.get("site"), info.get("site2")) if info and info.get("site2") else (info.get("site") if info else None)
        where = "%s stage=%s placement=%s" % (label, stage, site)
        evs = LOG.events
        for (inv, ret, r, who) in self.cancels:
            if isinstance(r, BaseException):
                res.violation("cancel-raised/%s" % type(r).__name__, "%s: cancel() raised %r" % (where, r))
        true_rets = [ret for (inv, ret, r, who) in self.cancels if r is True]
        any_rets = [ret for (inv, ret, r, who) in self.cancels]
        starts = [e for e in evs if e[3] == "fn.start" and e[4].get("fn") == "target"]
        submits = [e for e in evs if e[3] == "me.submit" and e[4].get("fn") == "target"]
        if true_rets:
            s = min(true_rets)
            late_start = [e for e in starts if e[0] > s]
            if late_start:
                res.violation("started-after-cancel-true", "%s: callable started (seq %d) after cancel() had returned True (seq %d)"
                              % (where, late_start[0][0], s))
            late_sub = [e for e in submits if e[0] > s]
            if late_sub:
                res.violation("handed-over-after-cancel-true", "%s: callable handed to the delegate (seq %d) after cancel() had returned True (seq %d)"
                              % (where, late_sub[0][0], s))
            if not self.f.cancelled():
                res.violation("cancel-true-not-cancelled", "%s: cancel() returned True but the future is %s" % (where, outcome_repr(outcome(self.f))))
        # cancel() on the derived future reaches the RetryFuture synchronously unless a throttle layer
        # sits above the retry layer (a queued ThrottleFuture has no delegate to forward to yet)
        above = self.layers[len(self.layers) - self.layers[::-1].index("retry"):] if "retry" in self.has else []
        if true_rets and "poll" in self.has:
            s = min(true_rets)
            # the poll thread snapshots its descriptors some time between waking up and entering the user's
            # function: only a poll whose thread woke up after cancel() had returned must not contain the future
            def woke_after(e):
                w = [x for x in evs if x[3] == "wake" and x[2] == e[2] and x[0] < e[0]]
                return bool(w) and w[-1][0] > s
            late = [e for e in evs if e[3] == "poll.shown" and e[0] > s and woke_after(e)
                    and any("'target'" in r for r in e[4].get("results", []))]
            if late:
                res.violation("polled-after-cancel-true", "%s: the poll function was still shown the future's descriptor (seq %d) after cancel() had returned True (seq %d)"
                              % (where, late[0][0], s))
        # (a ThrottleFuture still queued has no delegate to forward to: with a throttle above the retry layer the rule
        # applies to cancel() calls issued after the retry layer had already been handed the callable)
        first_handed = [e[0] for e in evs if e[3] == "rec.submit" and e[4].get("fn") == "target"]
        cancels_after_handover = [ret for (inv, ret, r, who) in self.cancels if first_handed and inv > first_handed[0]]
        if "retry" in self.has and any_rets and ("throttle" not in above or cancels_after_handover):
            s = min(any_rets) if "throttle" not in above else min(cancels_after_handover)
            # submissions arriving at the retry layer's own delegate (recording shim below it)
            late_sub = [e for e in evs if e[3] == "rec.submit" and e[4].get("fn") == "target" and e[0] > s]
            if late_sub:
                res.violation("retry-resubmitted-after-cancel", "%s: callable re-submitted to the delegate (seq %d) after a cancel() call had returned (seq %d)"
                              % (where, late_sub[0][0], s))
        # running over the whole cancel interval => False, and the outcome is the callable's
        if stage == "running":
            for (inv, ret, r, who) in self.cancels:
                if r is True:
                    res.violation("cancel-true-while-running", "%s: cancel() returned True although the callable was running" % where)
            if not true_rets and not any(isinstance(r, BaseException) for (_, _, r, _) in self.cancels):
                o = outcome(self.f)
                exp, _n = stacks.model(self.spec, stacks.Script("x", [("ret",)]))
                # the running item is completed by the harness with ('v','target','ran')
                if o[0] != "value":
                    res.violation("running-outcome-lost", "%s: cancel() returned False for a running callable, which then returned, but the future is %s"
                                  % (where, outcome_repr(o)))
        # propagation: innermost pending work received a cancel request
        if stage == "pending" and self.cancels:
            it = self.items("target")
            got = sum(len(self.me.fut(k).cancel_calls) for k in it)
            if got == 0:
                res.violation("cancel-not-propagated", "%s: outer cancel() did not reach the pending delegate future" % where)
        # a cancel function that was asked and consented has done its part (e.g. cancelled the remote task): the
        # cancel() call that asked must not then answer False and leave the future to "complete normally"
        for (inv, ret, r, who) in self.cancels:
            if r is False:
                asked = [e for e in evs if e[3] == "fn.end" and str(e[4].get("fn", "")).startswith("pcancel") and inv < e[0] < ret
                         and e[4].get("value") in ("True", True)]
                if asked:
                    res.violation("cancel-false-after-cancel-fn-consented", "%s: cancel() returned False although the cancel function had been "
                                  "asked during that call (seq %d) and consented" % (where, asked[0][0]))
        res.count("cancel_calls", len(self.cancels))
        res.count("cancel_true", len(true_rets))


def run_point(case, res):
    layers = case["layers"]
    for stage in STAGES:
        if not stage_possible(layers, stage):
            continue
        for mode in ("once", "twice", "two-threads"):
            begin("vt")
            ctx = Ctx()
            try:
                w = CW(ctx, layers)
                if not w.to_stage(stage):
                    res.count("stage_not_reached")
                    continue
                if mode == "once":
                    acts = [ctx.actor("C", w.do_cancel, "C").go()]
                elif mode == "twice":
                    a = ctx.actor("C", w.do_cancel, "C").go()
                    drive([a])
                    acts = [a, ctx.actor("C2", w.do_cancel, "C2").go()]
                else:
                    acts = [ctx.actor("C", w.do_cancel, "C").go(), ctx.actor("C2", w.do_cancel, "C2").go()]
                if drive(acts) != "ok" and not LM.deadlocks:
                    raise Inconclusive("cancel did not return: " + instr.describe_threads())
                if not LM.deadlocks:
                    w.finish()
                res.execs += 1
                check_common(res)
                if not LM.deadlocks:
                    w.judge(res, "point/" + ">".join(layers), stage)
                    res.key("point", ">".join(layers), stage, mode)
                    res.sample({"stack": layers, "stage": stage, "mode": mode,
                                "cancel_returns": [repr(r) for (_, _, r, _) in w.cancels], "outcome": outcome_repr(outcome(w.f))}, limit=2)
            finally:
                end(ctx)


class HScenario(object):
    """hand-over path | cancel   or   cancel | path action."""

    def __init__(self, case):
        self.case = case
        self.layers = case["layers"]
        self.stage = case["stage"]

    def setup(self):
        ctx = Ctx()
        w = CW(ctx, self.layers)
        ctx.w = w
        ctx.ok = True
        stage = self.stage
        # reach the state *before* the hand-over path runs
        if stage == "queued":
            ctx.ok = w.to_stage("queued")
        elif stage in ("pending", "running"):
            ctx.ok = w.to_stage(stage)
        elif stage == "backoff":
            ctx.ok = w.to_stage("pending")
        elif stage == "polling":
            ctx.ok = w.to_stage("pending")
        return ctx

    def path_action(self, ctx):
        """The action that makes the library hand the target over / move it on."""
        w = ctx.w
        me = w.me
        st = self.stage
        if st == "queued":
            for k in w.items("filler"):
                if not me.fut(k).done():
                    me.complete(k, ("v", "filler"))
        elif st == "pending":
            it = w.items("target")
            if it and not me.fut(it[-1]).done():
                me.complete(it[-1], ("v", "target", 0))
        elif st == "running":
            it = w.items("target")
            if it and not me.fut(it[-1]).done():
                me.complete(it[-1], ("v", "target", "ran"))
        elif st == "backoff":
            it = w.items("target")
            if it and not me.fut(it[-1]).done():
                e = UserErrorA("attempt")
                w.attempt_exc.append(e)
                me.fail(it[-1], e)
                # and let the back-off elapse so that the submit thread hands it over again
                from .c04 import fire_next_timer
                fire_next_timer("Retry")
        elif st == "polling":
            it = w.items("target")
            if it and not me.fut(it[-1]).done():
                me.complete(it[-1], ("v", "target", 0))

    def victim_role(self, ctx):
        if self.case["dir"] == "cancel|path":
            return "V"
        # path|cancel: the victim is whoever performs the hand-over: worker thread if there is one, else the acting client
        want = {"queued": "Throttle", "backoff": "Retry"}.get(self.stage)
        if want:
            ths = [t for t in instr.TRACKED if t.vf_started and want in t.vf_role]
            if ths:
                return ths[-1].vf_role
        return "T"

    def start_victim(self, ctx):
        if self.case["dir"] == "cancel|path":
            return ctx.actor("V", ctx.w.do_cancel, "V").go()
        return ctx.actor("T", self.path_action, ctx).go()

    def intervene(self, ctx):
        if self.case["dir"] == "cancel|path":
            self.path_action(ctx)
        else:
            ctx.w.do_cancel("I")

    def finish(self, ctx):
        ctx.w.finish()

    def oracle(self, ctx, res, info):
        if not ctx.ok:
            return
        stage = self.stage if self.stage in ("running",) and self.case["dir"] == "cancel|path" else "sweep"
        ctx.w.judge(res, self.case["name"], stage if stage == "sweep" else "sweep", info)
        if info.get("hit"):
            res.key("sweep", self.case["name"], info.get("site"))


class D2Scenario(object):
    """(delegate callback | cancel) then (retry submit thread | cancel)."""

    def __init__(self, case):
        self.case = case

    def setup(self):
        ME = instr.ME
        ctx = Ctx()
        me = ManualExecutor("me")
        ctx.own(me)
        if self.case["policy"] == "value":
            class P(ME.retry.RetryPolicy):
                def should_retry(self, attempt, future):
                    return attempt < 3
                def sleep_time(self, attempt, future):
                    return 0.25
            ex = ME.Executors.with_retry(me, P())
        else:
            ex = ME.Executors.with_retry(me, max_attempts=3, sleep=0.25, exponent=1.0)
        ctx.own(ex)
        w = CW.__new__(CW)
        w.ctx, w.layers, w.spec, w.me, w.top, w.has = ctx, ["retry"], {"base": "me", "layers": layer_specs(["retry"])}, me, ex, {"retry"}
        w.t0 = instr.vnow()
        w.filler = None
        w.cancels = []
        w.attempt_exc = []
        w.fn = Recorded("target", lambda idx: ("v", "target", idx))
        w.f = ex.submit(w.fn)
        instr.advance(0.01)
        ctx.w = w
        it = w.items("target")
        me.mark_running(it[-1])
        return ctx

    def role_a(self, ctx):
        return "V"

    def role_b(self, ctx):
        return [t for t in instr.TRACKED if t.vf_started][-1].vf_role

    def start_a(self, ctx):
        w = ctx.w

        def act():
            k = w.items("target")[-1]
            if self.case["first"] == "fail":
                w.me.fail(k, UserErrorA("attempt1"))
            else:
                w.me.complete(k, ("v", "target", "ran"))
        return ctx.actor("V", act).go()

    def intervene1(self, ctx):
        ctx.w.do_cancel("I1")

    def intervene2(self, ctx):
        ctx.w.do_cancel("I2")

    def finish(self, ctx):
        ctx.w.finish()

    def oracle(self, ctx, res, info):
        ctx.w.judge(res, self.case["name"], "sweep2", info)
        if info.get("hit2"):
            res.key("depth2", self.case["name"], info.get("site"), info.get("site2"))


class NScenario(object):
    """worker hand-over path (paused at i)  x  cancel (paused at j), worker released first."""

    def __init__(self, case):
        self.case = case
        self.layers = case["layers"]

    def setup(self):
        ctx = Ctx()
        w = CW(ctx, self.layers)
        ctx.w = w
        st = self.case["stage"]
        if st == "backoff":
            w.to_stage("backoff")
        elif st == "queued":
            w.to_stage("queued")
        return ctx

    def role_a(self, ctx):
        want = "Throttle" if self.case["stage"] == "queued" else "Retry"
        ths = [t for t in instr.TRACKED if t.vf_started and want in t.vf_role]
        return ths[-1].vf_role

    def start_a(self, ctx):
        w = ctx.w
        st = self.case["stage"]

        def trig():
            from .c04 import fire_next_timer
            if st == "backoff":
                fire_next_timer("Retry")
            elif st == "queued":
                for k in w.items("filler"):
                    if not w.me.fut(k).done():
                        w.me.complete(k, ("v", "filler"))
            else:
                # pending0: a fresh submission wakes the retry thread which hands it over
                w.f2 = w.top.submit(Recorded("other", lambda idx: None))
        return ctx.actor("T", trig).go()

    def intervene1(self, ctx):
        ctx.w.do_cancel("I1")

    def finish(self, ctx):
        ctx.w.finish()

    def oracle(self, ctx, res, info):
        ctx.w.judge(res, self.case["name"], "nested", info)
        if info.get("hit") and info.get("hit2"):
            res.key("nested", self.case["name"], info.get("site"), info.get("site2"))


def run_comb(case, res):
    F = instr.ME.futures
    comb = case["comb"]
    for n_done, in_state in ((0, "pending"), (1, "pending"), (0, "running"), (1, "running"), (0, "mixed"), (0, "first_cancelled"),
                             (0, "last_cancelled")):
        begin("vt")
        ctx = Ctx()
        try:
            ins = [SpyFuture("in%d" % i) for i in range(3)]
            # inputs whose work has already started (cancel() on them answers False) must still be asked
            for i, f in enumerate(ins):
                if in_state == "running" or (in_state == "mixed" and i % 2 == 0):
                    f.set_running_or_notify_cancel()
            pre_cancelled = None
            if in_state in ("first_cancelled", "last_cancelled"):
                # one input had been cancelled before the combinator was called
                pre_cancelled = ins[0] if in_state == "first_cancelled" else ins[-1]
                pre_cancelled.cancel()
                del pre_cancelled.cancel_calls[:]
            shielded = []
            expect = list(ins)
            if comb == "zip":
                out = F.f_zip(*ins)
            elif comb == "and":
                out = F.f_and(*ins)
            elif comb == "or":
                out = F.f_or(*ins)
            elif comb == "sequence":
                out = F.f_sequence(ins)
            elif comb == "traverse":
                it = iter(ins)
                out = F.f_traverse(lambda x: next(it), range(3))
            elif comb == "apply":
                out = F.f_apply(ins[0], ins[1], k=ins[2])
            elif comb == "map":
                out = F.f_map(ins[0], lambda x: x)
                expect = ins[:1]
            elif comb == "flat_map":
                out = F.f_flat_map(ins[0], lambda x: ins[1])
                expect = ins[:1]
            elif comb == "flat_map_inner":
                if pre_cancelled is not None:
                    continue  # (the outer input has to succeed for there to be an inner future)
                out = F.f_flat_map(ins[0], lambda x: ins[1])
                ins[0].set_result(1)
                expect = ins[1:2]
            elif comb == "proxy":
                out = F.f_proxy(ins[0])
                expect = ins[:1]
            elif comb == "timeout":
                out = F.f_timeout(ins[0], 100.0)
                expect = ins[:1]
            elif comb == "nocancel":
                out = F.f_nocancel(ins[0])
                expect, shielded = [], ins[:1]
            elif comb == "zip_nocancel":
                out = F.f_zip(F.f_nocancel(ins[0]), ins[1], ins[2])
                expect, shielded = ins[1:], ins[:1]
            elif comb == "or_nocancel":
                out = F.f_or(ins[0], F.f_nocancel(ins[1]), ins[2])
                expect, shielded = [ins[0], ins[2]], ins[1:2]
            if n_done and comb not in ("flat_map_inner",):
                # one input already finished: it must not matter
                if expect and len(expect) > 1:
                    expect[0].set_result(7)
                    expect = expect[1:]
                else:
                    continue
            if pre_cancelled is not None:
                expect = [f for f in expect if f is not pre_cancelled]
                shielded = [f for f in shielded if f is not pre_cancelled]
            r = call("cancel", out.cancel)
            instr.advance(D)
            res.execs += 1
            check_common(res)
            # (f_apply waits for the function future and all arguments together: every pending one is asked)
            for f in expect:
                if f.done() and not f.cancelled():
                    continue
                if len(f.cancel_calls) == 0:
                    res.violation("cancel-not-propagated/comb/%s" % comb, "f_%s: output.cancel() -> %r did not reach pending input %s" % (comb, r, f.tag))
            for f in shielded:
                if f.cancel_calls:
                    res.violation("nocancel-leak/%s" % comb, "f_%s: cancel() reached %s through f_nocancel" % (comb, f.tag))
            if comb == "nocancel" and r is not False:
                res.violation("nocancel-returned/%r" % (r,), "f_nocancel(f).cancel() returned %r" % (r,))
            res.key("comb", comb, n_done, in_state)
            res.sample({"combinator": comb, "inputs_done_before": n_done, "inputs_state": in_state, "cancel_returned": r,
                        "cancel_calls_per_input": {f.tag: len(f.cancel_calls) for f in ins}}, limit=1)
        finally:
            end(ctx)


def run_fncancel(case, res):
    """cancel() arrives while the user's (flat-)map function is executing: the input is finished, the inner
    future does not exist yet.  Whatever cancel() answers has to be kept: True -> the output stays cancelled and
    the inner future the function then hands back is asked to cancel; False -> the output completes with the
    inner future's outcome."""
    ME = instr.ME
    F = ME.futures
    form, who = case["form"], case["who"]
    for inner_end in ("value", "exc"):
        begin("vt")
        ctx = Ctx()
        try:
            inner = SpyFuture("inner")
            st = {"ret": None, "out": None}
            flat = "flat" in form or form.startswith("executor")

            def do_cancel():
                st["ret"] = call("cancel", st["out"].cancel, _tag="out")

            def fn(idx, x):
                if who == "same-thread":
                    do_cancel()
                else:
                    a = ctx.actor("C", do_cancel).go()
                    harness.wait_done_or_blocked(a)
                return inner if flat else ("mapped", x)

            rfn = Recorded("fn", fn)
            me = ManualExecutor("me")
            ctx.own(me)
            if form.startswith("executor") or form == "with_map":
                ex = ctx.own((ME.Executors.with_flat_map if flat else ME.Executors.with_map)(me, rfn))
                top = ex
                if form.endswith(">map"):
                    top = ctx.own(ME.Executors.with_map(ex, lambda v: ("top", v)))
                elif form.endswith(">retry"):
                    top = ctx.own(ME.Executors.with_retry(ex, max_attempts=3, sleep=0.25, max_sleep=0.25))
                st["out"] = top.submit(Recorded("job", lambda idx: ("v", 0)))
                instr.advance(0.01)
                src_done = lambda: me.complete(me.pending()[0], ("v", 0))
            else:
                src = SpyFuture("src")
                if form == "f_flat_map":
                    st["out"] = F.f_flat_map(src, rfn)
                    src_done = lambda: src.set_result(("v", 0))
                elif form == "f_flat_map_error_fn":
                    st["out"] = F.f_flat_map(src, lambda v: F.f_return(v), error_fn=rfn)
                    src_done = lambda: src.set_exception(UserErrorA("in"))
                else:
                    st["out"] = F.f_map(src, rfn)
                    src_done = lambda: src.set_result(("v", 0))
            out = st["out"]
            a = ctx.actor("W", src_done).go()
            if drive([a] + [x for x in ctx.actors if x is not a]) != "ok" and not LM.deadlocks:
                raise Inconclusive("completion did not return: " + instr.describe_threads())
            instr.advance(D)
            res.execs += 1
            check_common(res)
            if LM.deadlocks:
                continue
            if len(rfn.calls) != 1:
                res.inconclusive.append("fn.cancel: the function ran %d times" % len(rfn.calls))
                continue
            r = st["ret"]
            label = "fn.cancel/%s/%s" % (form, who)
            if r is True:
                res.count("fncancel.true")
                if not out.cancelled():
                    res.violation("cancel-true-not-cancelled/fn-running/" + form,
                                  "%s: cancel() during the function returned True but the future is %s" % (label, outcome_repr(outcome(out))))
                if flat and not inner.cancel_calls:
                    res.violation("cancel-true-inner-work-left/fn-running/" + form,
                                  "%s: cancel() during the flat-map function returned True, the function then returned its inner "
                                  "future, which was never asked to cancel: inner work keeps running for a cancelled future" % label)
            elif r is False:
                res.count("fncancel.false")
                if flat:
                    if inner.cancel_calls:
                        pass  # a later forwarded request is fine
                    if inner_end == "value":
                        inner.set_result(("inner", 1))
                    else:
                        inner.set_exception(UserErrorA("inner"))
                    instr.advance(D)
                    if form.endswith(">retry") and inner_end == "exc":
                        # cancel() was called on the retry future: no further attempt
                        instr.advance(1.0)
                        if len(me.items) > 1:
                            res.violation("retry-after-cancel/fn-running", "%s: cancel() returned False during the function; the attempt "
                                          "then failed and was re-submitted (%d submissions)" % (label, len(me.items)))
                o = outcome(out)
                if o[0] in ("pending", "cancelled"):
                    res.violation("cancel-false-%s/fn-running/%s" % (o[0], form),
                                  "%s: cancel() during the function returned False but the future ended %s" % (label, outcome_repr(o)))
            else:
                res.inconclusive.append("fn.cancel: cancel() did not return a bool: %r" % (r,))
            res.key("fncancel", form, who, case["inp"], inner_end, r)
            res.sample({"form": form, "cancel_from": who, "cancel_returned": r, "inner_cancel_calls": len(inner.cancel_calls),
                        "outcome": outcome_repr(outcome(out))}, limit=1)
        finally:
            end(ctx)


def run_refusedthen(case, res):
    """cancel() of the derived future is refused (the innermost work refuses one cancel request, as work that has
    started would); afterwards the work ends normally / fails / is cancelled by its owner: the future follows."""
    layers = case["layers"]
    for then in ("value", "exc", "inner_cancel"):
        begin("vt")
        ctx = Ctx()
        try:
            w = CW(ctx, layers)
            if not w.to_stage("pending"):
                res.count("stage_not_reached")
                continue
            it = w.items("target")
            spy = w.me.fut(it[-1])
            spy.refuse_cancels = 1
            a = ctx.actor("C", w.do_cancel, "C").go()
            if drive([a]) != "ok" and not LM.deadlocks:
                raise Inconclusive("cancel did not return: " + instr.describe_threads())
            spy.refuse_cancels = 0
            refused = [r for (_, _, r, _) in w.cancels]
            instr.advance(D)
            if then == "value":
                w.me.complete(it[-1], ("v", "target", "late"))
            elif then == "exc":
                w.me.fail(it[-1], UserErrorA("late"))
            else:
                spy.cancel()
            if not LM.deadlocks:
                w.finish()
            res.execs += 1
            check_common(res)
            label = "cancel.refused-then/%s/%s" % (">".join(layers), then)
            if refused and refused[0] is False and not w.f.done():
                res.violation("pending-after-refused-cancel/%s" % then,
                              "%s: cancel() was refused (False); then the underlying work ended (%s) but the future never completes" % (label, then))
            elif refused and refused[0] is False and then == "value" and "retry" not in layers and outcome(w.f)[0] != "value":
                res.violation("refused-cancel-changed-outcome", "%s: cancel() returned False, the work then returned normally, the future is %s"
                              % (label, outcome_repr(outcome(w.f))))
            w.judge(res, label, "pending")
            res.key("refusedthen", ">".join(layers), then, str(refused[:1]))
        finally:
            end(ctx)


def run_refused(case, res):
    from . import c04

    class Scn(c04.RefusedScenario):
        def op(self, ctx, name, who):
            if name == "cancel":
                # C04 only looks at blocking; here the answer matters
                try:
                    r = call("cancel", ctx.f0.cancel, _tag=who)
                except (instr.DeadlockBroken, instr.CaseAbort):
                    raise
                except BaseException as e:
                    ctx.cancel_results = getattr(ctx, "cancel_results", []) + [("raised", e)]
                    return
                ctx.cancel_results = getattr(ctx, "cancel_results", []) + [("returned", r)]
                return
            return c04.RefusedScenario.op(self, ctx, name, who)

        def oracle(self, ctx, res, info):
            label = "%s placement=%s" % (self.case["name"], info.get("site"))
            for how, v in getattr(ctx, "cancel_results", []):
                if how == "raised":
                    res.violation("cancel-raised/%s/refused-handover" % type(v).__name__,
                                  "%s: cancel() raised %r while the delegate refused the hand-over of that future" % (label, v))
                elif not isinstance(v, bool):
                    res.violation("cancel-nonbool/refused-handover", "%s: cancel() returned %r" % (label, v))
                elif v is True and not ctx.f0.cancelled():
                    res.violation("cancel-true-not-cancelled/refused-handover", "%s: cancel() returned True, future is %s"
                                  % (label, outcome_repr(outcome(ctx.f0))))
            if not ctx.f0.done():
                # what becomes of a future whose hand-over the delegate refused is outside C06: observed only
                res.count("foreign.pending_after_refused_handover")
            if info.get("hit"):
                res.key("refused", self.case["name"], info.get("site"))
            res.count("refused_handovers", len(LOG.select("me.submit.refused")))
            res.sample({"stack": self.layers, "victim": self.a, "intervention": self.b, "placement": info.get("site"),
                        "cancel": [(h, repr(v)) for h, v in getattr(ctx, "cancel_results", [])], "outcome": outcome_repr(outcome(ctx.f0))}, limit=1)

    rng = random.Random("c06r/%s/%s" % (case["seed"], case["name"]))
    b = "handover" if case["victim"] == "cancel" else "cancel"
    Sweep(Scn(case, b), res, "vt", case["name"]).run(case["cap"], rng, per_site=2)


def run_case(case, res):
    k = case["kind"]
    if k == "refusedthen":
        return run_refusedthen(case, res)
    if k == "refused":
        return run_refused(case, res)
    if k == "fncancel":
        return run_fncancel(case, res)
    rng = random.Random("c06/%s/%s" % (case["seed"], case["name"]))
    if k == "point":
        run_point(case, res)
    elif k == "sweep":
        Sweep(HScenario(case), res, "vt", case["name"]).run(case["cap"], rng, per_site=2)
    elif k == "nested":
        SweepNested(NScenario(case), res, "vt", case["name"]).run(case["cap_a"], case["cap_b"], rng, per_site=1, budget=case["budget"], a_slice=case.get("slice"))
    elif k == "depth2":
        Sweep2(D2Scenario(case), res, "vt", case["name"]).run(case["cap_a"], case["cap_b"], rng, per_site=1, budget=case["budget"])
    else:
        run_comb(case, res)
