"""Harness pieces shared by the property checks: actors, boundary recorders,
harness-owned delegate executors, the placement-sweep engine and the result
accumulator (DESIGN.md sections 2.5, 3.1, 4)."""
import sys
import gc
import time
import random
import os
import threading
import traceback
from concurrent.futures import Future, Executor, CancelledError, TimeoutError as FTimeout
from concurrent.futures import InvalidStateError

from . import instr
from .instr import LOG, TR, LM, CV, MU, Inconclusive, DeadlockBroken

_real_monotonic = instr._real_monotonic


# --------------------------------------------------------------------------
# results
# --------------------------------------------------------------------------
class Result(object):
    """What one case reports back to the parent process."""

    def __init__(self):
        self.execs = 0
        self.keys = set()
        self.violations = []
        self.inconclusive = []
        self.counters = {}
        self.samples = []
        self.sites = set()

    def count(self, name, n=1):
        self.counters[name] = self.counters.get(name, 0) + n

    def key(self, *parts):
        self.keys.add("/".join(str(p) for p in parts))

    def violation(self, mech, msg, **detail):
        for v in self.violations:
            if v["mech"] == mech:
                v["count"] += 1
                return
        detail = dict(detail)
        detail.setdefault("log", LOG.excerpt(60))
        self.violations.append({"mech": mech, "msg": msg, "detail": detail, "count": 1})

    def sample(self, s, limit=3):
        if len(self.samples) < limit:
            self.samples.append(s)

    def to_json(self):
        return {
            "execs": self.execs,
            "keys": sorted(self.keys),
            "violations": self.violations,
            "inconclusive": self.inconclusive,
            "counters": self.counters,
            "samples": self.samples,
            "sites": sorted("%s:%s:%s" % s for s in self.sites),
        }


# --------------------------------------------------------------------------
# actors
# --------------------------------------------------------------------------
class Actor(instr._RealThread):
    """A harness thread with a role that performs client calls."""

    def __init__(self, role, fn, *args, **kwargs):
        super(Actor, self).__init__(name="actor-" + role, daemon=True)
        self.role = role
        self.fn = fn
        self.args = args
        self.kwargs = kwargs
        self.value = None
        self.error = None
        self.finished = False
        self.external = False
        self.vf_role = role
        with MU:
            instr.ACTORS.append(self)

    def st_external(self):
        return self.external

    def run(self):
        st = instr.set_role(self.role)
        instr._ROLES[instr.get_ident()] = self.role
        try:
            self.value = self.fn(*self.args, **self.kwargs)
        except (DeadlockBroken, instr.CaseAbort) as e:
            self.error = e
        except BaseException as e:  # recorded, judged by the oracle
            self.error = e
            self.tb = traceback.format_exc().splitlines()[-10:]
        finally:
            with CV:
                self.finished = True
                CV.notify_all()

    def go(self):
        self.start()
        return self

    def wait(self, timeout=30.0):
        """Wait for completion; False if still running after timeout."""
        end = _real_monotonic() + timeout
        with CV:
            while not self.finished:
                if LM.deadlocks:
                    # give the broken thread a moment to unwind
                    CV.wait(0.2)
                    return self.finished
                rem = end - _real_monotonic()
                if rem <= 0:
                    return False
                CV.wait(min(rem, 0.05))
        self.join(1.0)
        return True


def wait_done_or_blocked(actor, grace=0.3, timeout=30.0):
    """Wait until ``actor`` finished, or cannot progress because of a paused /
    parked thread ('blocked' / 'parked'), or ``grace`` seconds of no decision."""
    t0 = _real_monotonic()
    with CV:
        while True:
            if actor.finished:
                return "done"
            if LM.deadlocks:
                return "deadlock"
            s = instr.thread_state(actor)
            if s in ("blocked", "parked"):
                return s
            el = _real_monotonic() - t0
            if el > grace:
                return "grace"
            CV.wait(0.005)


def drive(actors, res=None, timeout=60.0, use_time=True, max_virtual=4000.0):
    """Wait until every actor finished.  When everything is quiescent but an
    actor is unfinished: in virtual time fire the next timer (a fallback timer
    becoming visible); with no timer left it is a hang.  Returns
    'ok' | 'deadlock' | 'hang' | 'timeout'."""
    end = _real_monotonic() + timeout
    start_v = instr.vnow()
    while True:
        with CV:
            while True:
                if all(a.finished for a in actors):
                    return "ok"
                if LM.deadlocks:
                    CV.wait(0.2)
                    return "deadlock"
                if instr.MODE[0] == "vt" and instr.quiescent() and not any(
                        getattr(a, "external", False) and not a.finished for a in actors):
                    break
                rem = end - _real_monotonic()
                if rem <= 0:
                    return "timeout"
                CV.wait(min(rem, 0.02))
            # quiescent with unfinished actors
            if any(a.paused for a in TR.arms.values()):
                return "hang"  # caller forgot to release a pause
            timers = instr.pending_timers()
        if use_time and timers and timers[0] - start_v <= max_virtual:
            instr.advance(until=timers[0])
            if res is not None:
                res.count("drive.timer_needed")
            continue
        return "hang"


def hang_report(actors):
    frames = sys._current_frames()
    out = {}
    for t in list(instr.TRACKED) + list(actors):
        if t.is_alive() and t.ident in frames:
            out[getattr(t, "vf_role", t.name)] = [
                "%s:%d %s" % (fr.filename.rsplit("/", 1)[-1], fr.lineno, fr.name)
                for fr in traceback.extract_stack(frames[t.ident]) if "/vf/" not in fr.filename][-6:]
    return out


def call(kind, fn, *args, **kw):
    """Client-boundary recorder: call event before, return event after."""
    tag = kw.pop("_tag", None)
    s = LOG.add("call", op=kind, tag=tag)
    try:
        v = fn(*args, **kw)
    except DeadlockBroken:
        raise
    except BaseException as e:
        LOG.add("ret", op=kind, tag=tag, call=s, exc=type(e).__name__, msg=str(e)[:120])
        raise
    LOG.add("ret", op=kind, tag=tag, call=s, value=instr._short(v))
    return v


# --------------------------------------------------------------------------
# delegate boundary
# --------------------------------------------------------------------------
class SpyFuture(Future):
    """A stdlib Future that logs every cancel() it receives."""

    def __init__(self, tag=None):
        super(SpyFuture, self).__init__()
        self.tag = tag
        self.cancel_calls = []
        self.refuse_cancels = 0  # refuse the next n cancel() calls (like a delegate whose cancel can be vetoed)
        self.cancel_cost = 0.0  # virtual seconds a cancel() call takes (e.g. a remote call)

    def cancel(self):
        s = LOG.add("spy.cancel", tag=self.tag)
        if self.cancel_cost:
            instr.burn(self.cancel_cost)
        if self.refuse_cancels > 0 and not self.done():
            self.refuse_cancels -= 1
            self.cancel_calls.append((s, instr.vnow(), False))
            LOG.add("spy.cancel.ret", tag=self.tag, value=False, refused=True)
            return False
        was_done = self.done()
        r = super(SpyFuture, self).cancel()
        self.effective_cancels = getattr(self, "effective_cancels", 0) + (1 if (r and not was_done) else 0)
        if r:
            # a delegate executor would notify waiters when it finds the
            # cancelled work item; do it here so waiters see it
            try:
                self.set_running_or_notify_cancel()
            except Exception:
                pass
        self.cancel_calls.append((s, instr.vnow(), r))
        LOG.add("spy.cancel.ret", tag=self.tag, value=r, effective=bool(r and not was_done))
        return r

    def __repr__(self):
        return "<Spy %s %s>" % (self.tag, self._state)


class ManualExecutor(Executor):
    """Delegate whose work is started / completed only by the harness."""

    def __init__(self, name="me", auto=None):
        self.name = name
        self.items = []  # (future, fn, args, kwargs)
        self.shutdowns = []
        self.is_shutdown = False
        self.lock = instr._RealLock()
        self.auto = auto  # callable(item_index) -> None executed at submit (e.g. run inline)
        self.refuse_after_shutdown = True
        self.refuse = False  # a delegate that rejects hand-overs (closed / bounded)

    def submit(self, fn, *args, **kwargs):
        with self.lock:
            if self.refuse:
                LOG.add("me.submit.refused", ex=self.name)
                raise RuntimeError("cannot schedule new futures after shutdown")
            if self.is_shutdown and self.refuse_after_shutdown:
                LOG.add("me.submit.refused", ex=self.name)
                raise RuntimeError("cannot schedule new futures after shutdown")
            idx = len(self.items)
            f = SpyFuture("%s#%d" % (self.name, idx))
            self.items.append([f, fn, args, kwargs])
        LOG.add("me.submit", ex=self.name, idx=idx, fn=getattr(fn, "vf_id", None), args=instr._short(args))
        if self.auto is not None:
            self.auto(self, idx)
        return f

    def shutdown(self, wait=True, **kw):
        LOG.add("me.shutdown", ex=self.name, wait=wait, kw=kw)
        with self.lock:
            self.shutdowns.append((wait, dict(kw)))
            self.is_shutdown = True

    # --- harness side
    def fut(self, idx):
        return self.items[idx][0]

    def pending(self):
        return [i for i, it in enumerate(self.items) if not it[0].done()]

    def run(self, idx):
        """Execute item idx like a worker thread would."""
        f, fn, args, kwargs = self.items[idx]
        if not f.set_running_or_notify_cancel():
            return False
        LOG.add("me.run", ex=self.name, idx=idx)
        try:
            r = fn(*args, **kwargs)
        except DeadlockBroken:
            raise
        except BaseException as e:
            f.set_exception(e)
        else:
            f.set_result(r)
        return True

    def mark_running(self, idx):
        return self.items[idx][0].set_running_or_notify_cancel()

    def complete(self, idx, value):
        LOG.add("me.complete", ex=self.name, idx=idx, value=instr._short(value))
        try:
            self.items[idx][0].set_result(value)
        except InvalidStateError:
            LOG.add("me.complete.lost", ex=self.name, idx=idx)
            return False
        LOG.add("me.complete.ret", ex=self.name, idx=idx)
        return True

    def fail(self, idx, exc):
        LOG.add("me.fail", ex=self.name, idx=idx, exc=type(exc).__name__)
        try:
            self.items[idx][0].set_exception(exc)
        except InvalidStateError:
            LOG.add("me.fail.lost", ex=self.name, idx=idx)
            return False
        LOG.add("me.fail.ret", ex=self.name, idx=idx)
        return True

    def forget(self):
        """Drop every reference to work items (reclamation scenarios)."""
        self.items = []


def run_inline(me, idx):
    me.run(idx)


class RecordingExecutor(Executor):
    """Wraps a real executor and logs submit/shutdown arriving at it."""

    def __init__(self, inner, name="rec"):
        self.inner = inner
        self.name = name
        self.shutdowns = []
        self.submits = 0

    def submit(self, fn, *args, **kwargs):
        LOG.add("rec.submit", ex=self.name, fn=getattr(fn, "vf_id", None))
        self.submits += 1
        return self.inner.submit(fn, *args, **kwargs)

    def shutdown(self, wait=True, **kw):
        LOG.add("rec.shutdown", ex=self.name, wait=wait, kw=kw)
        self.shutdowns.append((wait, dict(kw)))
        return self.inner.shutdown(wait, **kw)


# --------------------------------------------------------------------------
# user-code boundary
# --------------------------------------------------------------------------
class Recorded(object):
    """Wraps user code; logs start/finish with invocation index; behaviour is
    given by ``behave(index, *args, **kwargs)``."""

    def __init__(self, vf_id, behave, keep_args=True):
        self.vf_id = vf_id
        self.behave = behave
        self.keep_args = keep_args
        self.calls = []
        self._lock = instr._RealLock()

    def __call__(self, *args, **kwargs):
        with self._lock:
            idx = len(self.calls)
            rec = {"idx": idx, "args": args if self.keep_args else None, "kwargs": kwargs if self.keep_args else None,
                   "thread": instr.current_role()}
            self.calls.append(rec)
        rec["start"] = LOG.add("fn.start", fn=self.vf_id, idx=idx, args=instr._short(args))
        rec["t0"] = instr.vnow()
        try:
            v = self.behave(idx, *args, **kwargs)
        except DeadlockBroken:
            raise
        except BaseException as e:
            rec["exc"] = e
            rec["t1"] = instr.vnow()
            rec["end"] = LOG.add("fn.end", fn=self.vf_id, idx=idx, exc=type(e).__name__)
            raise
        rec["value"] = v if self.keep_args else None
        rec["t1"] = instr.vnow()
        rec["end"] = LOG.add("fn.end", fn=self.vf_id, idx=idx, value=instr._short(v))
        return v

    def __repr__(self):
        return "<fn %s>" % self.vf_id


class UserError(Exception):
    """Exceptions raised by scripted user code."""


class UserErrorA(UserError):
    pass


class UserErrorB(UserError):
    pass


class OtherError(Exception):
    """Not a subclass of UserError (for exception_base filters)."""


def outcome(f, timeout=0):
    """(kind, payload) of a future without blocking: pending/cancelled/value/exc."""
    if not f.done():
        return ("pending", None)
    if f.cancelled():
        return ("cancelled", None)
    e = f.exception(timeout=0)
    if e is not None:
        return ("exc", e)
    return ("value", f.result(timeout=0))


def outcome_repr(o):
    k, p = o
    if k == "exc":
        return "exc:%s" % type(p).__name__
    if k == "value":
        return "value:%s" % instr._short(p, 40)
    return k


# --------------------------------------------------------------------------
# case bookkeeping
# --------------------------------------------------------------------------
class Ctx(object):
    """Per-execution context: owns executors for cleanup."""

    def __init__(self):
        self.executors = []
        self.actors = []
        self.data = {}

    def own(self, ex):
        self.executors.append(ex)
        return ex

    def actor(self, role, fn, *a, **k):
        ac = Actor(role, fn, *a, **k)
        self.actors.append(ac)
        return ac


def begin(mode):
    """Start an execution: fresh log, mode, no arms."""
    gc.collect()
    budget = _real_monotonic() + 0.5
    for t in list(instr.TRACKED):
        if t.vf_started and t.is_alive():
            instr._RealThread.join(t, max(0.0, budget - _real_monotonic()))
    instr.reset_case()
    instr.set_mode(mode)


def end(ctx, res=None):
    """Tear an execution down: shut executors down without waiting, wake
    everything, join library threads, collect garbage."""
    TR.disarm()
    TR.set_fuzz(0.0)
    stuck = []
    if instr.abort_parked_actors():
        for a in ctx.actors:
            if a.is_alive():
                instr._RealThread.join(a, 1.0)

    def _shutdown_all(exs=list(reversed(ctx.executors))):
        for ex in exs:
            try:
                ex.shutdown(wait=False)
            except BaseException:
                pass
    st = instr._RealThread(target=_shutdown_all, daemon=True)
    st.start()
    st.join(2.0)
    if st.is_alive():
        # a shutdown is stuck behind a parked library thread / actor: unwind them
        for _ in range(5):
            instr.abort_all_parked()
            st.join(0.5)
            if not st.is_alive():
                break
    instr.release_all_waiters()
    instr.abort_parked_actors()
    for t in list(instr.TRACKED):
        if t.vf_started and "-internal" not in t.vf_role:
            instr._RealThread.join(t, 2.0)
            if t.is_alive():
                # parked again (e.g. executor never shut down): wake once more
                instr.release_all_waiters()
                instr._RealThread.join(t, 0.5)
                if t.is_alive():
                    instr.abort_all_parked()
                    instr._RealThread.join(t, 0.5)
                if t.is_alive() and "-internal" not in t.vf_role:
                    stuck.append(t.vf_role)
    for a in ctx.actors:
        if a.is_alive():
            instr._RealThread.join(a, 1.0)
            if a.is_alive():
                stuck.append(a.role)
    ctx.executors = []
    ctx.actors = []
    ctx.data = {}
    gc.collect()
    return stuck


# set by property modules whose statement covers exceptions escaping from library callbacks (C18, C02)
JUDGE_CALLBACK_ESCAPES = [False]


def check_common(res, prop_prefix="", deadlock_suffix=""):
    """Oracles every execution gets: definite deadlocks and uncaught
    exceptions in threads.  ``deadlock_suffix`` lets a scenario add what it was doing to the
    mechanism key of a deadlock (so that a known finding names one situation, not a lock pair)."""
    for d in LM.deadlocks:
        res.violation(
            "deadlock/" + d["kind"] + "/" + "+".join(d["locks"]) + deadlock_suffix,
            "lock monitor: %s among %s" % (d["kind"], d["threads"]),
            deadlock=d,
        )
    check_callback_escapes(res, judge=JUDGE_CALLBACK_ESCAPES[0])
    for e in instr.THREAD_ERRORS:
        role = e["role"] or "?"
        base = role.split("#")[0]
        if base.startswith("W:"):
            base = "W:" + base[2:].split("-")[0]
        elif base.startswith("T:"):
            base = "T"
        res.violation(
            "thread-died/%s/%s" % (base, e["type"]),
            "uncaught %s in thread %s: %s" % (e["type"], role, e["msg"]),
            error=e,
        )


def check_callback_escapes(res, label="", judge=True):
    """Exceptions that a callback of the *library* let escape into the stdlib's future machinery (which logs and
    swallows them).  judge=False only counts them."""
    for e in list(instr.CF_CALLBACK_ERRORS):
        if not e["in_library"]:
            res.count("foreign.user_callback_raised_into_plain_future/%s" % e["type"])
            continue
        if judge:
            res.violation("exception-escaped/delegate-callback/%s" % e["type"],
                          "%s: a done-callback of the library let %s(%s) escape into the delegate / input future's callback "
                          "dispatch (logged by concurrent.futures): %s" % (label, e["type"], e["msg"], " < ".join(reversed(e["frames"]))))
        else:
            res.count("foreign.exception_escaped_delegate_callback/%s" % e["type"])
    del instr.CF_CALLBACK_ERRORS[:]


# --------------------------------------------------------------------------
# placement sweeps
# --------------------------------------------------------------------------
def sample_positions(trace, cap, rng, per_site=3):
    """Positions of a dry-run trace to sweep: every distinct (code,line) site
    up to ``per_site`` visits; then capped by seeded sampling."""
    # per site: the first ceil(per_site/2) visits and the last floor(per_site/2) visits
    # (in nested callback chains the last visits belong to the outermost / final future)
    visits = {}
    for i, site in enumerate(trace):
        visits.setdefault(site, []).append(i)
    pos = set()
    nf = (per_site + 1) // 2
    nl = per_site // 2
    for site, idx in visits.items():
        pos.update(idx[:nf])
        if nl:
            pos.update(idx[-nl:])
    pos = sorted(pos)
    if cap is not None and len(pos) > cap:
        pos = sorted(rng.sample(pos, cap))
    return pos


# granularity of suspension points used by sweeps that do not ask for one themselves ("line" | "instr");
# the worker sets it per case (thorough tier runs every depth-1 sweep a second time at instruction granularity)
DEFAULT_GRAN = ["line"]
CASE_FAIL_FAST = int(os.environ.get("VERIF_CASE_FAIL_FAST", "40"))


class Sweep(object):
    """One-preemption sweep.

    ``scn`` provides:
      setup() -> ctx
      victim_role(ctx) -> role string of the thread to pause
      start_victim(ctx) -> Actor or None (None: the victim is a library worker
                           thread and start_victim performed the trigger)
      intervene(ctx)    -> runs in actor 'I' while the victim is paused
      finish(ctx)       -> drive to quiescence
      oracle(ctx, res, info) -> add violations / keys
    """

    def __init__(self, scn, res, mode, name, gran=None):
        self.scn = scn
        self.res = res
        self.mode = mode
        self.name = name
        self.gran = gran or DEFAULT_GRAN[0]
        self.hit = 0
        self.missed = 0
        self.overlap = 0

    def _drive(self, acts, ctx, info):
        """Returns True if the execution can be judged by the scenario oracle."""
        scn, res = self.scn, self.res
        why = drive(acts, res, use_time=getattr(scn, "use_time", True))
        info["drive"] = why
        if why == "timeout":
            raise Inconclusive("actors did not finish: " + instr.describe_threads())
        if why == "hang" and hasattr(scn, "on_quiescent_unfinished"):
            if scn.on_quiescent_unfinished(ctx, acts, res, info):
                return True
        if why == "hang":
            stuck = [x.role for x in acts if not x.finished]
            key = scn.hang_key(ctx, stuck) if hasattr(scn, "hang_key") else "+".join(stuck)
            res.violation("hang/" + key,
                          "all threads blocked with none timed; unfinished: %s; threads: %s" % (stuck, instr.describe_threads()),
                          stacks=hang_report(acts), placement=info.get("site"))
            mark_recycle()
            return False
        return why == "ok"

    def run_one(self, pos):
        scn, res = self.scn, self.res
        begin(self.mode)
        ctx = scn.setup()
        info = {"pos": pos, "hit": False, "istate": None, "site": None}
        try:
            TR.set_granularity(self.gran)
            role = scn.victim_role(ctx)
            arm = TR.arm(role, pause_k=pos, record=(pos is None))
            v = scn.start_victim(ctx)
            iact = None
            ok = True
            if pos is None:
                # dry run: victim first, then the intervention, sequentially
                if v is not None:
                    ok = self._drive([v], ctx, info)
                    if ok and v.role != role and instr.MODE[0] == "vt":
                        instr.settle()
                else:
                    instr.settle()
                info["trace"] = list(arm.trace)
                if ok:
                    iact = ctx.actor("I", scn.intervene, ctx).go()
            else:
                if v is not None and v.role == role:
                    why = instr.wait_paused_or(arm, lambda: v.finished or (instr.MODE[0] == "vt" and instr.quiescent()))
                elif v is not None:
                    # the victim is a library thread, v is the actor performing the trigger
                    why = instr.wait_paused_or(arm, lambda: instr.quiescent())
                else:
                    why = instr.wait_paused_or(arm, lambda: instr.quiescent(), timeout=20.0)
                if why == "paused":
                    info["hit"] = True
                    info["site"] = arm.site
                    self.hit += 1
                    res.sites.add(arm.site)
                    iact = ctx.actor("I", scn.intervene, ctx).go()
                    info["istate"] = wait_done_or_blocked(iact)
                    if info["istate"] in ("blocked", "parked"):
                        self.overlap += 1
                    TR.release(arm)
                elif why == "timeout":
                    raise Inconclusive("victim neither paused nor finished: " + instr.describe_threads())
                elif why == "deadlock":
                    ok = False
                else:
                    self.missed += 1
                    TR.disarm(role)
                    iact = ctx.actor("I", scn.intervene, ctx).go()
            TR.disarm(role)
            acts = [x for x in (v, iact) if x is not None]
            if ok:
                ok = self._drive(acts, ctx, info)
            if ok and not LM.deadlocks and instr.MODE[0] == "vt":
                # library threads released from their suspension point run on until they park
                instr.settle()
            if ok and not LM.deadlocks:
                scn.finish(ctx)
            info["victim"] = v
            info["iact"] = iact
            res.execs += 1
            check_common(res)
            if ok and not LM.deadlocks:
                scn.oracle(ctx, res, info)
            return info.get("trace")
        finally:
            dead = bool(LM.deadlocks) or need_recycle()
            stuck = end(ctx)
            if stuck and not dead:
                res.inconclusive.append("threads stuck after case: %s" % stuck)

    def run(self, cap, rng, per_site=3):
        trace = self.run_one(None)
        if LM.deadlocks:
            return
        # depth-1 sweeps are exhaustive over the sampled visits of every site (per_site) in both tiers: a cap made
        # detection depend on the seed; VERIF_CAP=1 brings the per-case caps back (faster, for development)
        if not os.environ.get("VERIF_CAP"):
            cap = None
        positions = sample_positions(trace or [], cap, rng, per_site)
        self.res.count("sweep.trace_len", len(trace or []))
        for p in positions:
            self.run_one(p)
            if sum(v["count"] for v in self.res.violations) >= CASE_FAIL_FAST:
                # this case's verdict is settled; every further placement would only repeat it (hangs are slow to tear down)
                self.res.count("sweep.stopped_after_violations")
                break
            if need_recycle():
                break
        self.res.count("sweep.placements_hit", self.hit)
        self.res.count("sweep.placements_missed", self.missed)
        self.res.count("sweep.intervention_blocked_on_victim", self.overlap)


_RECYCLE = [False]


def need_recycle():
    """True when the process saw a deadlock (threads may be wedged)."""
    return _RECYCLE[0]


def mark_recycle():
    _RECYCLE[0] = True


# --------------------------------------------------------------------------
# depth-2 placement sweeps
# --------------------------------------------------------------------------
class Sweep2(object):
    """Two directed preemptions.

    ``scn`` provides setup(), role_a(ctx), role_b(ctx), start_a(ctx) -> Actor,
    intervene1(ctx), intervene2(ctx), finish(ctx), oracle(ctx, res, info).
    Role A is paused at position i, intervention 1 runs (to completion or until it
    blocks), A is released; role B - armed from the start - is paused at its
    position j, intervention 2 runs, B is released."""

    def __init__(self, scn, res, mode, name):
        self.scn, self.res, self.mode, self.name = scn, res, mode, name
        self.hit2 = 0
        self.runs = 0

    def run_one(self, i, j):
        scn, res = self.scn, self.res
        begin(self.mode)
        ctx = scn.setup()
        info = {"pos": (i, j), "site": None, "site2": None, "hit": False, "hit2": False}
        try:
            ra, rb = scn.role_a(ctx), scn.role_b(ctx)
            arm_a = TR.arm(ra, pause_k=i, record=(i is None))
            arm_b = TR.arm(rb, pause_k=j, record=(j is None))
            v = scn.start_a(ctx)
            acts = [v]
            released_a = False

            def handle_b():
                if arm_b.paused and not info["hit2"]:
                    info["hit2"] = True
                    info["site2"] = arm_b.site
                    i2 = ctx.actor("I2", scn.intervene2, ctx).go()
                    acts.append(i2)
                    wait_done_or_blocked(i2)
                    TR.release(arm_b)
                    return True
                return False

            if i is not None:
                why = instr.wait_paused_or(arm_a, lambda: v.finished or arm_b.paused)
                if why == "pred" and arm_b.paused:
                    handle_b()
                    why = instr.wait_paused_or(arm_a, lambda: v.finished)
                if why == "paused":
                    info["hit"] = True
                    info["site"] = arm_a.site
                    i1 = ctx.actor("I1", scn.intervene1, ctx).go()
                    acts.append(i1)
                    # B may get paused while intervention 1 runs
                    st = wait_done_or_blocked(i1)
                    TR.release(arm_a)
                    released_a = True
                elif why == "timeout":
                    raise Inconclusive("sweep2: A neither paused nor finished: " + instr.describe_threads())
            # now wait for B's pause or for everything to finish
            for _ in range(3):
                why = instr.wait_paused_or(arm_b, lambda: all(a.finished for a in acts) and (
                    instr.MODE[0] != "vt" or instr.quiescent()))
                if why == "paused":
                    if not handle_b():
                        TR.release(arm_b)
                    continue
                break
            trace_b = list(arm_b.trace) if arm_b.trace is not None else None
            if i is None and j is None:
                info["trace_a"] = list(arm_a.trace)
            TR.disarm()
            why = drive(acts, res)
            if why == "timeout":
                raise Inconclusive("sweep2: actors did not finish: " + instr.describe_threads())
            ok = why == "ok"
            if why == "hang":
                res.violation("hang/" + self.name, "all threads blocked: %s" % instr.describe_threads(), stacks=hang_report(acts))
                mark_recycle()
            if ok and not LM.deadlocks:
                scn.finish(ctx)
            info["actors"] = acts
            res.execs += 1
            self.runs += 1
            if info["hit2"]:
                self.hit2 += 1
                res.sites.add(info["site2"])
            if info["site"]:
                res.sites.add(info["site"])
            check_common(res)
            if ok and not LM.deadlocks:
                scn.oracle(ctx, res, info)
            return info.get("trace_a"), trace_b
        finally:
            end(ctx)

    def run(self, cap_a, cap_b, rng, per_site=1, budget=None):
        ta, tb0 = self.run_one(None, None)
        pa = sample_positions(ta or [], cap_a, rng, per_site)
        n = 0
        for i in pa:
            _, tb = self.run_one(i, None)
            pb = sample_positions(tb or [], cap_b, rng, per_site)
            for j in pb:
                self.run_one(i, j)
                n += 1
                if need_recycle() or (budget and n >= budget):
                    break
            if need_recycle() or (budget and n >= budget):
                break
        self.res.count("sweep2.pairs_run", n)
        self.res.count("sweep2.second_placement_hit", self.hit2)


class SweepNested(object):
    """Two directed preemptions, nested: role A is paused at position i; the
    intervention actor 'I1' is started and itself paused at its position j; A is
    released and runs as far as it can; then I1 is released.

    ``scn`` provides setup(), role_a(ctx), start_a(ctx) -> Actor, intervene1(ctx),
    finish(ctx), oracle(ctx, res, info)."""

    def __init__(self, scn, res, mode, name, gran="line"):
        self.scn, self.res, self.mode, self.name = scn, res, mode, name
        self.gran = gran
        self.hit2 = 0

    def run_one(self, i, j):
        scn, res = self.scn, self.res
        begin(self.mode)
        ctx = scn.setup()
        info = {"pos": (i, j), "site": None, "site2": None, "hit": False, "hit2": False}
        try:
            ra = scn.role_a(ctx)
            # the second suspended role is the intervention actor itself, or (role_x) a library thread it wakes
            rx = scn.role_x(ctx) if hasattr(scn, "role_x") else "I1"
            TR.set_granularity(getattr(self, "gran", "line"))
            arm_a = TR.arm(ra, pause_k=i, record=(i is None))
            arm_x = TR.arm(rx, pause_k=j, record=(j is None))
            v = scn.start_a(ctx)
            acts = [v]
            if i is not None:
                if v.role == ra:
                    why = instr.wait_paused_or(arm_a, lambda: v.finished)
                else:
                    why = instr.wait_paused_or(arm_a, lambda: instr.quiescent())
                if why == "timeout":
                    raise Inconclusive("nested: A neither paused nor quiescent: " + instr.describe_threads())
                info["hit"] = why == "paused"
                info["site"] = arm_a.site
            else:
                drive([v], res)
                if instr.MODE[0] == "vt":
                    instr.settle()
            i1 = ctx.actor("I1", scn.intervene1, ctx).go()
            acts.append(i1)
            if j is not None and rx != "I1":
                why = instr.wait_paused_or(arm_x, lambda: (i1.finished or instr.thread_state(i1) in ("blocked", "parked")) and instr.quiescent())
                info["hit2"] = why == "paused"
                info["site2"] = arm_x.site
            elif j is not None:
                why = instr.wait_paused_or(arm_x, lambda: i1.finished or instr.thread_state(i1) in ("blocked", "parked"))
                info["hit2"] = why == "paused"
                info["site2"] = arm_x.site
            else:
                wait_done_or_blocked(i1)
                if rx != "I1" and instr.MODE[0] == "vt":
                    instr.settle()
            # release A first and let it run as far as it can
            TR.release(arm_a)
            TR.disarm(ra)
            if instr.MODE[0] == "vt":
                t_end = _real_monotonic() + 20
                with CV:
                    while not instr.quiescent() and not LM.deadlocks and _real_monotonic() < t_end:
                        CV.wait(0.01)
            else:
                wait_done_or_blocked(v)
            TR.release(arm_x)
            trace_x = list(arm_x.trace) if arm_x.trace is not None else None
            trace_a = list(arm_a.trace) if arm_a.trace is not None else None
            TR.disarm()
            why = drive(acts, res)
            if why == "timeout":
                raise Inconclusive("nested: actors did not finish: " + instr.describe_threads())
            ok = why == "ok"
            if why == "hang":
                res.violation("hang/" + self.name, "all threads blocked: %s" % instr.describe_threads(), stacks=hang_report(acts))
                mark_recycle()
            if ok and not LM.deadlocks:
                scn.finish(ctx)
            info["actors"] = acts
            res.execs += 1
            if info["hit2"] and info["hit"]:
                self.hit2 += 1
            for s in (info["site"], info["site2"]):
                if s:
                    res.sites.add(s)
            check_common(res)
            if ok and not LM.deadlocks:
                scn.oracle(ctx, res, info)
            return trace_a, trace_x
        finally:
            end(ctx)

    def run(self, cap_a, cap_b, rng, per_site=1, budget=None, a_slice=None):
        ta, _ = self.run_one(None, None)
        pa = sample_positions(ta or [], cap_a, rng, per_site)
        if a_slice:
            pa = [p for n_, p in enumerate(pa) if n_ % a_slice[1] == a_slice[0]]
        n = 0
        for i in pa:
            _, tx = self.run_one(i, None)
            px = sample_positions(tx or [], cap_b, rng, per_site)
            for j in px:
                self.run_one(i, j)
                n += 1
                if need_recycle() or (budget and n >= budget):
                    break
            if need_recycle() or (budget and n >= budget):
                break
        self.res.count("nested.pairs_run", n)
        self.res.count("nested.both_placements_hit", self.hit2)
