"""Instrumentation layer (DESIGN.md section 2).

Everything here is applied from outside the repository:

* ``install()`` imports ``more_executors`` from $VERIF_REPO while the names
  ``threading.Lock/RLock/Event/Thread`` and ``time.monotonic`` are temporarily
  bound to the harness versions, so every ``from threading import ...`` in the
  library (and every module-level instance created at import) is the monitored
  one.  A by-identity scan afterwards counts the bindings (engagement gate).
* ``TracedLock`` / ``TracedRLock``  - lock monitor with wait-for graph.
* ``VEvent`` / ``CLOCK``            - virtual time (mode 'vt') or real (mode 'rt').
* ``TrackedThread``                 - library worker threads get roles, are
  known to the quiescence detector, failures are recorded.
* ``TR``                            - sys.monitoring LINE tracer: per-role traces,
  pause points (placements) and seeded yield injection.
* ``LOG``                           - the totally ordered event history.

All harness state is protected by one re-entrant mutex ``MU`` (library wake-ups
can come from weakref callbacks that run inside harness code).
"""
import sys
import os
import gc
import time
import types
import random
import threading
import traceback
import itertools
import logging
import _thread

_RealLock = threading.Lock
_RealRLock = threading.RLock
_RealEvent = threading.Event
_RealThread = threading.Thread
_real_monotonic = time.monotonic
get_ident = _thread.get_ident

MU = _RealRLock()
CV = threading.Condition(MU)

tls = threading.local()

MODE = ["rt"]  # 'rt' real time, 'vt' virtual time


class Inconclusive(Exception):
    """The monitors could not decide (watchdog, hook not reached...)."""


class DeadlockBroken(BaseException):
    """Raised inside a thread whose blocking acquire would close a wait-for
    cycle: the deadlock is recorded as a violation and broken so that the
    process can report it."""


# --------------------------------------------------------------------------
# roles
# --------------------------------------------------------------------------
class ThreadState(object):
    __slots__ = ("role", "rng", "thread", "ident", "external_wait")

    def __init__(self, role, thread):
        self.role = role
        self.rng = None
        self.thread = thread
        self.ident = thread.ident
        self.external_wait = False


def _state():
    st = getattr(tls, "st", None)
    if st is None:
        t = threading.current_thread()
        st = ThreadState("T:" + t.name, t)
        tls.st = st
    return st


def set_role(role):
    st = _state()
    st.role = role
    st.rng = None
    return st


def current_role():
    return _state().role


# --------------------------------------------------------------------------
# log
# --------------------------------------------------------------------------
class Log(object):
    def __init__(self):
        self.events = []
        self.seq = itertools.count(1)
        self.total = 0
        self.kinds = {}

    def add(self, _kind, **data):
        with MU:
            s = next(self.seq)
            self.total += 1
            self.kinds[_kind] = self.kinds.get(_kind, 0) + 1
            ev = (s, CLOCK.now if MODE[0] == "vt" else 0.0, _state().role, _kind, data)
            self.events.append(ev)
            return s

    def reset(self):
        with MU:
            self.events = []
            self.seq = itertools.count(1)

    def select(self, *kinds, **match):
        out = []
        for ev in self.events:
            if kinds and ev[3] not in kinds:
                continue
            d = ev[4]
            if all(d.get(k) == v for k, v in match.items()):
                out.append(ev)
        return out

    def excerpt(self, n=40):
        return [fmt_event(e) for e in self.events[-n:]]


def fmt_event(e):
    s, vt, role, kind, d = e
    return "%d t=%.4f %s %s %s" % (
        s,
        vt,
        role,
        kind,
        " ".join("%s=%s" % (k, _short(v)) for k, v in d.items()),
    )


def _short(v, n=60):
    try:
        r = repr(v)
    except Exception:  # pragma: no cover
        r = "<unrepr>"
    return r if len(r) <= n else r[: n - 3] + "..."


LOG = Log()


# --------------------------------------------------------------------------
# virtual clock
# --------------------------------------------------------------------------
class Waiter(object):
    __slots__ = ("event", "deadline", "woken", "timed_out", "thread", "ident", "abort")


class CaseAbort(BaseException):
    """Raised inside a harness actor that is still parked in a library wait
    when its case is torn down."""


class VClock(object):
    TICK = 1e-6

    def __init__(self):
        self.now = 1000.0
        self.reads = 0
        self.waits = 0
        self.timed_waits = 0
        self.timers_fired = 0
        self.waiters = []
        self.on_quiescent = None

    def monotonic(self):
        with MU:
            self.reads += 1
            self.now += self.TICK
            return self.now


CLOCK = VClock()


def monotonic():
    if MODE[0] == "vt":
        return CLOCK.monotonic()
    CLOCK.reads += 1
    return _real_monotonic()


class VEvent(object):
    """threading.Event look-alike living in virtual time."""

    def __init__(self):
        self._flag = False

    def is_set(self):
        return self._flag

    isSet = is_set

    def set(self):
        with CV:
            self._flag = True
            for w in CLOCK.waiters:
                if w.event is self and not w.woken:
                    w.woken = True
            CV.notify_all()

    def clear(self):
        with CV:
            self._flag = False

    def wait(self, timeout=None):
        with CV:
            CLOCK.waits += 1
            if self._flag:
                LOG.add("wake", timed_out=False, immediate=True)
                return True
            w = Waiter()
            w.event = self
            w.woken = False
            w.timed_out = False
            w.abort = False
            w.thread = threading.current_thread()
            w.ident = get_ident()
            if timeout is None:
                w.deadline = None
            else:
                CLOCK.timed_waits += 1
                w.deadline = CLOCK.now + max(timeout, 0)
            CLOCK.waiters.append(w)
            CV.notify_all()
            while not w.woken:
                CV.wait()
            CLOCK.waiters.remove(w)
            CV.notify_all()
            if w.abort:
                raise CaseAbort()
            LOG.add("wake", timed_out=w.timed_out)
            return self._flag


class EventFactory(object):
    """Bound to the name ``Event`` inside the library: returns a virtual or a
    real event depending on the mode in force when the event is created."""

    created = 0

    def __new__(cls, *a, **k):
        EventFactory.created += 1
        if MODE[0] == "vt":
            return VEvent()
        return _RealEvent()


# --------------------------------------------------------------------------
# lock monitor
# --------------------------------------------------------------------------
class LockMonitor(object):
    def __init__(self):
        self.reset()

    def reset(self):
        self.waiting = {}  # ident -> lock
        self.joining = {}  # ident -> thread
        self.held = {}  # ident -> [locks]
        self.acquisitions = 0
        self.contended = 0
        self.edges = {}  # (labelA, labelB) -> count
        self.deadlocks = []
        self.locks_created = 0

    def note_edges(self, me, lock):
        held = self.held.get(me)
        if held:
            for h in held:
                if h is not lock:
                    k = (h.label, lock.label)
                    self.edges[k] = self.edges.get(k, 0) + 1

    def chain(self, start_ident):
        """Follow waits-for edges from a thread; return (idents, end) where end
        is 'cycle', or the ident of the last thread (which is not waiting on a
        lock/join), or None (lock momentarily without owner)."""
        seen = [start_ident]
        cur = start_ident
        while True:
            lk = self.waiting.get(cur)
            if lk is not None:
                nxt = lk.owner
            else:
                th = self.joining.get(cur)
                if th is None:
                    return seen, cur
                nxt = th.ident if th.is_alive() else None
            if nxt is None:
                return seen, None
            if nxt in seen:
                seen.append(nxt)
                return seen, "cycle"
            seen.append(nxt)
            cur = nxt

    def record_deadlock(self, kind, idents, lock):
        frames = sys._current_frames()
        stacks = {}
        for i in set(idents):
            f = frames.get(i)
            if f is not None:
                stacks[_role_of_ident(i)] = [
                    "%s:%d %s" % (os.path.basename(fr.filename), fr.lineno, fr.name)
                    for fr in traceback.extract_stack(f)
                    if "/vf/" not in fr.filename
                ][-8:]
        labels = []
        for i in idents:
            lk = self.waiting.get(i)
            if lk is not None:
                labels.append(lk.label)
        d = {
            "kind": kind,
            "threads": [_role_of_ident(i) for i in idents],
            "locks": sorted(set(labels + [lock.label])),
            "stacks": stacks,
        }
        self.deadlocks.append(d)
        LOG.add("deadlock", kind=kind, locks=d["locks"], threads=d["threads"])
        CV.notify_all()
        return d


LM = LockMonitor()
_ROLES = {}  # ident -> role (for reporting)


def _role_of_ident(i):
    return _ROLES.get(i, "ident-%s" % i)


def _site_label():
    f = sys._getframe(2)
    best = None
    while f is not None:
        fn = f.f_code.co_filename
        if PKG_DIR and fn.startswith(PKG_DIR):
            q = f.f_code.co_qualname if hasattr(f.f_code, "co_qualname") else f.f_code.co_name
            best = "%s:%s" % (os.path.basename(fn), q)
            break
        f = f.f_back
    return best or "extern"


PKG_DIR = None


class TracedLock(object):
    reentrant = False

    def __init__(self):
        self._l = _RealLock()
        self.owner = None
        self.count = 0
        self.label = _site_label()
        LM.locks_created += 1

    def acquire(self, blocking=True, timeout=-1):
        me = get_ident()
        with MU:
            if self.reentrant and self.owner == me:
                self.count += 1
                LM.acquisitions += 1
                return True
            if self._l.acquire(False):
                self._got(me)
                return True
            if not blocking:
                return False
            LM.contended += 1
            if me not in _ROLES:
                _ROLES[me] = _state().role
            if self.owner == me:
                LM.record_deadlock("self-acquire", [me], self)
                raise DeadlockBroken("self-acquire of " + self.label)
            LM.waiting[me] = self
            idents, end = LM.chain(me)
            if end == "cycle":
                LM.record_deadlock("cycle", idents[:-1], self)
                del LM.waiting[me]
                raise DeadlockBroken("wait-for cycle at " + self.label)
            CV.notify_all()
        ok = False
        try:
            ok = self._l.acquire(True, timeout)
        finally:
            with MU:
                LM.waiting.pop(me, None)
                if ok:
                    self._got(me)
                CV.notify_all()
        return ok

    def _got(self, me):
        LM.acquisitions += 1
        LM.note_edges(me, self)
        self.owner = me
        self.count = 1
        LM.held.setdefault(me, []).append(self)
        if me not in _ROLES:
            _ROLES[me] = _state().role

    def release(self):
        me = get_ident()
        with MU:
            if self.reentrant:
                if self.owner != me:
                    raise RuntimeError("cannot release un-acquired lock")
                self.count -= 1
                if self.count:
                    return
            owner = self.owner
            self.owner = None
            self.count = 0
            h = LM.held.get(owner)
            if h and self in h:
                h.remove(self)
            self._l.release()
            CV.notify_all()

    def locked(self):
        return self._l.locked()

    def __enter__(self):
        self.acquire()
        return True

    def __exit__(self, *a):
        self.release()

    def __repr__(self):
        return "<Traced%s %s owner=%s>" % (
            "RLock" if self.reentrant else "Lock",
            self.label,
            _role_of_ident(self.owner) if self.owner else None,
        )


class TracedRLock(TracedLock):
    reentrant = True


# --------------------------------------------------------------------------
# threads
# --------------------------------------------------------------------------
TRACKED = []  # library worker threads created since last reset
ACTORS = []  # harness actor threads of the current case
THREAD_ERRORS = []  # uncaught exceptions in any thread
CF_CALLBACK_ERRORS = []  # "exception calling callback" records of the stdlib: a done-callback raised into a plain Future


class _CFTap(logging.Handler):
    """concurrent.futures logs (and swallows) exceptions raised by done-callbacks of its futures.  The library's
    own callbacks on delegate / input futures run there: what they let escape ends up in this log only."""

    def emit(self, record):
        try:
            if "exception calling callback" not in str(record.msg):
                return
            ei = record.exc_info
            exc = ei[1] if ei else None
            if isinstance(exc, (DeadlockBroken, CaseAbort)):
                return
            tb = traceback.extract_tb(ei[2]) if ei and ei[2] else []
            frames = ["%s:%s:%d" % (os.path.basename(f.filename), f.name, f.lineno) for f in tb]
            with MU:
                CF_CALLBACK_ERRORS.append({"type": type(exc).__name__ if exc is not None else "?", "msg": str(exc)[:200],
                                           "frames": frames[-6:], "in_library": any(PKG_DIR and f.filename.startswith(PKG_DIR) for f in tb)})
        except Exception:
            pass


class TrackedThread(_RealThread):
    """Bound to the name ``Thread`` inside the library."""

    created = 0

    def __init__(self, *a, **k):
        super(TrackedThread, self).__init__(*a, **k)
        TrackedThread.created += 1
        with MU:
            self.vf_role = "W:%s#%d" % (self.name, len(TRACKED))
            self.vf_started = False
            self.vf_finished = False
            self.vf_error = None
            TRACKED.append(self)

    def start(self):
        with MU:
            self.vf_started = True
        super(TrackedThread, self).start()

    def run(self):
        st = set_role(self.vf_role)
        _ROLES[get_ident()] = self.vf_role
        try:
            super(TrackedThread, self).run()
        except (DeadlockBroken, CaseAbort):
            pass
        except BaseException as e:
            self.vf_error = e
            with MU:
                THREAD_ERRORS.append(
                    {
                        "role": self.vf_role,
                        "type": type(e).__name__,
                        "msg": str(e)[:200],
                        "tb": traceback.format_exc().splitlines()[-12:],
                    }
                )
        finally:
            with CV:
                self.vf_finished = True
                CV.notify_all()

    def join(self, timeout=None):
        me = get_ident()
        with CV:
            if me not in _ROLES:
                _ROLES[me] = _state().role
            LM.joining[me] = self
            idents, end = LM.chain(me)
            if end == "cycle":
                del LM.joining[me]
                LM.record_deadlock("join-cycle", idents[:-1], _JoinPseudoLock(self))
                raise DeadlockBroken("join cycle")
            CV.notify_all()
        try:
            return super(TrackedThread, self).join(timeout)
        finally:
            with CV:
                LM.joining.pop(me, None)
                CV.notify_all()


class _JoinPseudoLock(object):
    def __init__(self, th):
        self.label = "join(%s)" % th.name


def _excepthook(args):
    if isinstance(args.exc_value, (DeadlockBroken, CaseAbort)):
        return
    with MU:
        THREAD_ERRORS.append(
            {
                "role": getattr(args.thread, "vf_role", None) or (args.thread.name if args.thread else "?"),
                "type": args.exc_type.__name__,
                "msg": str(args.exc_value)[:200],
                "tb": "".join(
                    traceback.format_exception(args.exc_type, args.exc_value, args.exc_traceback)
                ).splitlines()[-12:],
            }
        )


# --------------------------------------------------------------------------
# thread states / quiescence
# --------------------------------------------------------------------------
def thread_state(t):
    """Must be called with MU held."""
    if not t.is_alive() or getattr(t, "vf_finished", False):
        return "dead"
    i = t.ident
    for a in TR.arms.values():
        if a.paused and a.ident == i:
            return "paused"
    for w in CLOCK.waiters:
        if w.ident == i:
            return "running" if w.woken else "parked"
    if i in LM.waiting or i in LM.joining:
        idents, end = LM.chain(i)
        if end == "cycle" or end is None:
            return "running"
        # end = ident of the last thread of the chain
        last_is_join = idents[-2] in LM.joining if len(idents) >= 2 else False
        for t2 in list(TRACKED) + list(ACTORS):
            if t2.ident == end:
                s2 = thread_state_simple(t2)
                if s2 == "dead":
                    # joining a thread that just exited is transient; a lock
                    # whose owner died is never released
                    return "running" if last_is_join else "blocked"
                return "blocked" if s2 in ("paused", "parked") else "running"
        return "running"
    return "running"


def thread_state_simple(t):
    if not t.is_alive():
        return "dead"
    i = t.ident
    for a in TR.arms.values():
        if a.paused and a.ident == i:
            return "paused"
    for w in CLOCK.waiters:
        if w.ident == i:
            return "running" if w.woken else "parked"
    return "running"


def all_threads():
    return [t for t in TRACKED if t.vf_started] + [
        a for a in ACTORS if not a.st_external()
    ]


def quiescent():
    for t in all_threads():
        if thread_state(t) == "running":
            return False
    return True


def settle(timeout=20.0):
    """Wait (real time) until no tracked thread can make progress on its own."""
    end = _real_monotonic() + timeout
    with CV:
        while True:
            if LM.deadlocks:
                return True
            if quiescent():
                return True
            rem = end - _real_monotonic()
            if rem <= 0:
                raise Inconclusive("settle timeout: " + describe_threads())
            CV.wait(min(rem, 0.02))


def wait_for(pred, timeout=20.0):
    """Wait (real time) until pred() holds; pred is evaluated with the monitor mutex held.  Usable from inside an
    actor (unlike settle(), which would count the calling actor as running)."""
    end = _real_monotonic() + timeout
    with CV:
        while not pred():
            if LM.deadlocks:
                return False
            rem = end - _real_monotonic()
            if rem <= 0:
                raise Inconclusive("wait_for timeout: " + describe_threads())
            CV.wait(min(rem, 0.02))
    return True


def quiescent_but_me():
    """No tracked thread other than the caller can make progress on its own (call with the mutex held)."""
    me = threading.current_thread()
    for t in all_threads():
        if t is me:
            continue
        if thread_state(t) == "running":
            # a thread waiting for a lock that (transitively) the caller holds cannot move either
            i = t.ident
            if i in LM.waiting or i in LM.joining:
                idents, end = LM.chain(i)
                if end == me.ident:
                    continue
            return False
    return True


def timed_waiter(role_part):
    """A thread whose role contains role_part is parked in a timed wait (call with the mutex held)."""
    return any((not w.woken) and w.deadline is not None and role_part in getattr(w.thread, "vf_role", "")
               for w in CLOCK.waiters)


def describe_threads():
    with MU:
        return ", ".join(
            "%s=%s" % (getattr(t, "vf_role", t.name), thread_state(t)) for t in all_threads()
        )


def advance(horizon_delta=None, until=None, max_fires=10000):
    """Advance virtual time to ``now+horizon_delta`` (or absolute ``until``),
    firing timed waits in deadline order; settle before every step.  Returns
    the number of timers fired."""
    assert MODE[0] == "vt"
    with CV:
        horizon = until if until is not None else CLOCK.now + horizon_delta
    fired = 0
    while True:
        settle()
        if LM.deadlocks:
            return fired
        cb = CLOCK.on_quiescent
        if cb is not None:
            cb()
        with CV:
            cands = [
                w
                for w in CLOCK.waiters
                if not w.woken and w.deadline is not None and w.deadline <= horizon
            ]
            if not cands:
                if CLOCK.now < horizon:
                    CLOCK.now = horizon
                return fired
            w = min(cands, key=lambda w: w.deadline)
            if CLOCK.now < w.deadline:
                CLOCK.now = w.deadline
            w.woken = True
            w.timed_out = True
            fired += 1
            CLOCK.timers_fired += 1
            CV.notify_all()
        if fired > max_fires:
            raise Inconclusive("advance: too many timer firings")


def vnow():
    return CLOCK.now


def pass_time(dt, timeout=10.0):
    """Virtual time passes while the calling (actor) thread is inside user / delegate code: like advance(), timers due
    in the interval fire in order and the threads they wake run until nothing but the caller can move - but callable from
    inside an actor."""
    if MODE[0] != "vt":
        return 0
    with CV:
        horizon = CLOCK.now + dt
    fired = 0
    while True:
        wait_for(quiescent_but_me, timeout=timeout)
        if LM.deadlocks:
            return fired
        with CV:
            cands = [w for w in CLOCK.waiters if not w.woken and w.deadline is not None and w.deadline <= horizon]
            if not cands:
                if CLOCK.now < horizon:
                    CLOCK.now = horizon
                return fired
            w = min(cands, key=lambda w: w.deadline)
            if CLOCK.now < w.deadline:
                CLOCK.now = w.deadline
            w.woken = True
            w.timed_out = True
            fired += 1
            CLOCK.timers_fired += 1
            CV.notify_all()


def burn(dt):
    """Virtual time consumed by the calling thread inside user / delegate code (a slow call)."""
    if MODE[0] != "vt":
        return
    with CV:
        CLOCK.now += dt
        CV.notify_all()


def pending_timers():
    with MU:
        return sorted(w.deadline for w in CLOCK.waiters if not w.woken and w.deadline is not None)


def release_all_waiters():
    """Case cleanup: wake every parked thread (their events get set)."""
    with CV:
        for w in list(CLOCK.waiters):
            w.event._flag = True
            w.woken = True
        CV.notify_all()


def abort_all_parked():
    """Case cleanup, last resort: unwind every parked thread (library workers too)."""
    n = 0
    with CV:
        for w in list(CLOCK.waiters):
            if not w.woken and "-internal" not in getattr(w.thread, "vf_role", ""):
                # (the library's process-wide helper executor behind f_timeout outlives cases)
                w.abort = True
                w.woken = True
                n += 1
        CV.notify_all()
    return n


def abort_parked_actors():
    """Case cleanup: a harness actor still parked inside a library wait (e.g. a
    blocking submit that can never proceed) is unwound with CaseAbort."""
    n = 0
    with CV:
        for w in list(CLOCK.waiters):
            if not isinstance(w.thread, TrackedThread) and not w.woken:
                w.abort = True
                w.woken = True
                n += 1
        CV.notify_all()
    return n


# --------------------------------------------------------------------------
# tracer
# --------------------------------------------------------------------------
class Arm(object):
    def __init__(self, role, pause_k=None, record=False):
        self.role = role
        self.n = 0
        self.pause_k = pause_k
        self.trace = [] if record else None
        self.paused = False
        self.hit = False
        self.ident = None
        self.site = None
        self.release_evt = _RealEvent()
        self.expired = False


class Tracer(object):
    TOOL = 3
    PAUSE_MAX = 60.0

    def __init__(self):
        self.arms = {}
        self.line_events = 0
        self.fuzz_p = 0.0
        self.fuzz_seed = 0
        self.fuzz_yields = 0
        self.ncode = 0
        self.installed = False
        self.sites = set()
        self.gran = "line"
        self.codes = []
        self.instr_events = 0

    def install(self, pkg_dir):
        mon = sys.monitoring
        if self.installed:
            return self.ncode
        mon.use_tool_id(self.TOOL, "vf")
        mon.register_callback(self.TOOL, mon.events.LINE, self.on_line)
        mon.register_callback(self.TOOL, mon.events.INSTRUCTION, self.on_instruction)
        seen = set()

        def walk(c):
            if c in seen:
                return
            if not c.co_filename.startswith(pkg_dir):
                return
            seen.add(c)
            for k in c.co_consts:
                if isinstance(k, types.CodeType):
                    walk(k)

        for o in gc.get_objects():
            if isinstance(o, types.FunctionType):
                walk(o.__code__)
        for c in seen:
            mon.set_local_events(self.TOOL, c, mon.events.LINE)
        self.codes = list(seen)
        self.ncode = len(seen)
        self.installed = True
        return self.ncode

    def set_granularity(self, gran):
        """'line' (default): placements are statement boundaries.  'instr': placements are bytecode
        instruction boundaries of library code (reaches windows inside one statement, e.g. between the
        evaluation of a right-hand side and the store)."""
        if gran == self.gran:
            return
        mon = sys.monitoring
        ev = mon.events.LINE | (mon.events.INSTRUCTION if gran == "instr" else 0)
        for c in self.codes:
            mon.set_local_events(self.TOOL, c, ev)
        self.gran = gran

    def on_instruction(self, code, offset):
        if self.gran != "instr":
            return
        arms = self.arms
        if not arms:
            return
        st = getattr(tls, "st", None)
        if st is None:
            st = _state()
        a = arms.get(st.role)
        if a is not None:
            self.instr_events += 1
            n = a.n
            a.n = n + 1
            if a.trace is not None:
                a.trace.append((os.path.basename(code.co_filename), code.co_name, "+%d" % offset))
            if n == a.pause_k:
                self._pause(a, code, "+%d" % offset)

    def on_line(self, code, line):
        self.line_events += 1
        st = getattr(tls, "st", None)
        if st is None:
            st = _state()
        arms = self.arms
        if arms and self.gran == "line":
            a = arms.get(st.role)
            if a is not None:
                n = a.n
                a.n = n + 1
                if a.trace is not None:
                    a.trace.append((os.path.basename(code.co_filename), code.co_name, line))
                if n == a.pause_k:
                    self._pause(a, code, line)
        p = self.fuzz_p
        if p:
            rng = st.rng
            if rng is None:
                rng = st.rng = random.Random("%s/%s" % (self.fuzz_seed, st.role))
            r = rng.random()
            if r < p:
                self.fuzz_yields += 1
                if r < p * 0.04:
                    time.sleep(rng.uniform(5e-5, 1.5e-3))
                else:
                    time.sleep(0)

    def _pause(self, a, code, line):
        with CV:
            a.ident = get_ident()
            a.site = (os.path.basename(code.co_filename), code.co_name, line)
            a.hit = True
            a.paused = True
            self.sites.add(a.site)
            CV.notify_all()
        if not a.release_evt.wait(self.PAUSE_MAX):
            a.expired = True
        with CV:
            a.paused = False
            CV.notify_all()

    def arm(self, role, pause_k=None, record=False):
        a = Arm(role, pause_k, record)
        with MU:
            self.arms = dict(self.arms, **{role: a})
        return a

    def disarm(self, role=None):
        with MU:
            if role is None:
                old = list(self.arms.values())
                self.arms = {}
            else:
                d = dict(self.arms)
                old = [d.pop(role)] if role in d else []
                self.arms = d
        for a in old:
            a.release_evt.set()

    def release(self, a):
        a.release_evt.set()

    def set_fuzz(self, p, seed=0):
        self.fuzz_p = p
        self.fuzz_seed = seed


TR = Tracer()


def wait_paused_or(a, pred, timeout=20.0):
    """Wait until arm ``a`` is paused (-> 'paused') or pred() is true
    (-> 'pred').  pred is evaluated under MU."""
    end = _real_monotonic() + timeout
    with CV:
        while True:
            if a.paused:
                return "paused"
            if LM.deadlocks:
                return "deadlock"
            if pred():
                return "pred"
            rem = end - _real_monotonic()
            if rem <= 0:
                return "timeout"
            CV.wait(min(rem, 0.02))


# --------------------------------------------------------------------------
# installation
# --------------------------------------------------------------------------
ENGAGE = {}
ME = None  # the more_executors package


def install(repo=None, fakeprom=False):
    """Import more_executors from the repository with harness primitives."""
    global PKG_DIR, ME
    if ME is not None:
        return ME
    repo = repo or os.environ.get("VERIF_REPO", "/repo")
    repo = os.path.realpath(repo)
    sys.dont_write_bytecode = True
    # everything the library imports from the stdlib must be cached first so
    # that only the library sees the substituted names
    import concurrent.futures, concurrent.futures.thread, concurrent.futures.process  # noqa
    import logging, weakref, atexit, functools, collections, contextlib, asyncio  # noqa
    import math, queue, multiprocessing  # noqa

    if fakeprom:
        sys.path.insert(0, os.path.join(os.path.dirname(os.path.abspath(__file__)), "fakeprom"))
        os.environ["MORE_EXECUTORS_PROMETHEUS"] = "1"
    else:
        os.environ["MORE_EXECUTORS_PROMETHEUS"] = "0"
    sys.path.insert(0, repo)
    for k in list(sys.modules):
        if k == "more_executors" or k.startswith("more_executors."):
            del sys.modules[k]
    PKG_DIR = os.path.join(repo, "more_executors") + os.sep
    _tap = _CFTap()
    _tap.setLevel(logging.ERROR)
    logging.getLogger("concurrent.futures").addHandler(_tap)
    saved = (threading.Lock, threading.RLock, threading.Event, threading.Thread, time.monotonic)
    threading.Lock = TracedLock
    threading.RLock = TracedRLock
    threading.Event = EventFactory
    threading.Thread = TrackedThread
    time.monotonic = monotonic
    try:
        import more_executors
        import more_executors.futures  # noqa
        import importlib, pkgutil

        for m in pkgutil.walk_packages(more_executors.__path__, "more_executors."):
            try:
                importlib.import_module(m.name)
            except Exception:
                # optional modules (e.g. prometheus without the client) may fail
                pass
    finally:
        (threading.Lock, threading.RLock, threading.Event, threading.Thread, time.monotonic) = saved
    f = os.path.realpath(more_executors.__file__)
    if not f.startswith(PKG_DIR):
        raise RuntimeError("more_executors imported from %s, expected under %s" % (f, PKG_DIR))
    # by-identity scan: what did the library actually bind?
    bound = {"lock": 0, "rlock": 0, "event": 0, "thread": 0, "monotonic": 0}
    for name, mod in list(sys.modules.items()):
        if mod is None or not (name == "more_executors" or name.startswith("more_executors.")):
            continue
        for k, v in list(vars(mod).items()):
            if v is TracedLock:
                bound["lock"] += 1
            elif v is TracedRLock:
                bound["rlock"] += 1
            elif v is EventFactory:
                bound["event"] += 1
            elif v is TrackedThread:
                bound["thread"] += 1
            elif v is monotonic:
                bound["monotonic"] += 1
    ENGAGE["bound"] = bound
    ENGAGE["code_objects"] = TR.install(PKG_DIR)
    threading.excepthook = _excepthook
    sys.setswitchinterval(1e-4)
    ME = more_executors
    return more_executors


def set_mode(mode):
    assert mode in ("rt", "vt")
    MODE[0] = mode


def counters():
    return {
        "line_events": TR.line_events,
        "fuzz_yields": TR.fuzz_yields,
        "lock_acquisitions": LM.acquisitions,
        "lock_contended": LM.contended,
        "locks_created": LM.locks_created,
        "vevent_waits": CLOCK.waits,
        "vevent_timed_waits": CLOCK.timed_waits,
        "timers_fired": CLOCK.timers_fired,
        "clock_reads": CLOCK.reads,
        "tracked_threads": TrackedThread.created,
        "events_created": EventFactory.created,
        "boundary_events_logged": LOG.total,
        "instruction_events": TR.instr_events,
    }


def reset_case():
    """Forget everything about the previous case."""
    TR.disarm()
    TR.set_fuzz(0.0)
    if TR.installed:
        TR.set_granularity("line")
    release_all_waiters()
    with MU:
        # threads that survive their case (e.g. the library's process-wide helper
        # executor behind f_timeout) stay known to the quiescence detector
        TRACKED[:] = [t for t in TRACKED if t.vf_started and t.is_alive() and not t.vf_finished]
        del ACTORS[:]
        del THREAD_ERRORS[:]
        del CF_CALLBACK_ERRORS[:]
        LM.waiting.clear()
        LM.joining.clear()
        LM.held.clear()
        LM.deadlocks = []
        CLOCK.on_quiescent = None
        _ROLES.clear()
    LOG.reset()
