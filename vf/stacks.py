"""Executor stack builder + sequential reference model (DESIGN.md 3.3, 3.5).

A stack spec is ``{"base": "sync"|"pool"|"me"|"me_inline", "workers": n,
"layers": [layer, ...]}`` where layers are applied bottom-up and each layer is
a dict ``{"t": type, ...params}``.  ``build`` creates the real executors through
the public ``with_*`` API only; ``model`` evaluates the same stack sequentially
from the property statements."""
import random

from . import instr, harness
from .harness import Recorded, UserError, UserErrorA, UserErrorB, OtherError, ManualExecutor, run_inline

LAYER_TYPES = ["map", "flat_map", "retry", "poll", "throttle", "timeout", "cos"]


def gen_spec(rng, max_depth=6, bases=("sync", "pool"), types=LAYER_TYPES, vt=False):
    depth = rng.randint(1, max_depth)
    layers = []
    for k in range(depth):
        t = rng.choice(types)
        L = {"t": t, "k": k}
        if t == "map":
            L["error_fn"] = rng.choice([None, None, "wrap", "reraise", "recover", "recover_none"])
            L["fn"] = rng.choice(["tag", "tag", "none"])
        elif t == "flat_map":
            L["fn"] = rng.choice(["ret", "ret", "none", "raise_on_odd", "failed_if_recovered", "failed_on_odd"])
        elif t == "retry":
            L["max_attempts"] = rng.choice([1, 2, 3, 4])
            L["base"] = rng.choice(["Exception", "UserError", "UserErrorA"])
            if rng.random() < 0.15:
                L["policy"] = "sleep_raises"  # a policy that agrees to retry but fails when asked how long to wait
        elif t == "throttle":
            L["count"] = rng.choice([1, 2, 3, None, "callable"])
            if L["count"] in (1, 2, 3) and rng.random() < 0.4:
                L["block"] = True  # submit() waits while the queue is full
        elif t == "poll":
            L["mode"] = rng.choice(["first", "first", "second_call", "fail_odd_in_handler"])
        layers.append(L)
    # a blocking throttle below a retry layer is the configuration of a recorded finding (the retry thread holds its
    # executor lock while its hand-over blocks; see C04 api.blocking-below-retry): generated stacks stay clear of it
    for k, L in enumerate(layers):
        if L["t"] == "throttle" and L.get("block") and any(U["t"] == "retry" for U in layers[k + 1:]):
            L["block"] = False
    base = rng.choice(list(bases))
    # flat-map stages with an error function (its own generator, so that the other choices stay as they were): applied to a
    # failed input only - never to the failure of the future the flat-map function handed back
    frng = random.Random(repr(layers))
    for L in layers:
        if L["t"] == "flat_map":
            L["error_fn"] = frng.choice([None, "recover", "refail", "recover"])
    return {"base": base, "workers": rng.choice([1, 2, 4, 8]), "layers": layers}


EXC_BASES = {"Exception": Exception, "UserError": UserError, "UserErrorA": UserErrorA}


class Built(object):
    def __init__(self):
        self.top = None
        self.base = None
        self.executors = []  # bottom-up, base first
        self.fns = {}  # name -> Recorded
        self.poll_state = {}


def tagger(tag):
    def behave(idx, x):
        return (tag, x)
    return behave


def build(ctx, spec, name=None, base_executor=None):
    ME = instr.ME
    Executors = ME.Executors
    b = Built()
    kw = {}
    if name is not None:
        kw["name"] = name
    if base_executor is not None:
        base = base_executor
    elif spec["base"] == "sync":
        base = Executors.sync(**kw)
    elif spec["base"] == "pool":
        base = Executors.thread_pool(max_workers=spec.get("workers", 2), **kw)
    elif spec["base"] == "me":
        base = ManualExecutor("me")
    elif spec["base"] == "me_inline":
        base = ManualExecutor("me", auto=run_inline)
    else:
        raise ValueError(spec["base"])
    b.base = base
    b.executors.append(ctx.own(base))
    cur = base
    for L in spec["layers"]:
        t, k = L["t"], L["k"]
        if t in spec.get("shim_below", ()):
            # observe the boundary between this layer and its delegate
            cur = harness.RecordingExecutor(cur, name="below-%s%d" % (t, k))
        if t == "map":
            fn = None
            if L.get("fn", "tag") == "tag":
                fn = b.fns["map%d" % k] = Recorded("map%d" % k, tagger("m%d" % k))
            efn = None
            ek = L.get("error_fn")
            if ek:
                efn = b.fns["err%d" % k] = Recorded("err%d" % k, make_error_fn(ek, k))
            cur = cur.with_map(fn, error_fn=efn) if hasattr(cur, "with_map") else Executors.with_map(cur, fn, error_fn=efn)
        elif t == "flat_map":
            fk = L.get("fn", "ret")
            fn = None
            if fk != "none":
                fn = b.fns["fmap%d" % k] = Recorded("fmap%d" % k, make_flat_fn(fk, k))
            ek = L.get("error_fn")
            if ek:
                efn = b.fns["ferr%d" % k] = Recorded("ferr%d" % k, make_flat_error_fn(ek, k))
                cur = _with(cur, "flat_map", fn, error_fn=efn)
            else:
                cur = _with(cur, "flat_map", fn)
        elif t == "retry" and L.get("policy") == "sleep_raises":
            ME = instr.ME

            class SleepRaises(ME.retry.RetryPolicy):
                def should_retry(self, attempt, future):
                    return future.exception() is not None

                def sleep_time(self, attempt, future):
                    raise PolicyBoom("no Retry-After on %r" % (future.exception(),))
            cur = _with(cur, "retry", SleepRaises())
        elif t == "retry":
            cur = _with(cur, "retry", max_attempts=L.get("max_attempts", 3), sleep=L.get("sleep", 0),
                        exponent=L.get("exponent", 2.0), max_sleep=L.get("max_sleep", 120),
                        exception_base=EXC_BASES[L.get("base", "Exception")])
        elif t == "poll":
            pf = b.fns["poll%d" % k] = Recorded("poll%d" % k, make_poll_fn(L.get("mode", "first"), k, b),
                                                keep_args=spec.get("keep_args", True))
            cf = None
            if L.get("cancel_fn") == "consent":
                # a cancel function with an effect of its own (it cancels the remote task) that consents
                cf = b.fns["pcancel%d" % k] = Recorded("pcancel%d" % k, lambda idx, r: True, keep_args=spec.get("keep_args", True))
            cur = _with(cur, "poll", pf, cf, L.get("interval", 0.002))
        elif t == "throttle":
            c = L.get("count", 2)
            if c == "callable":
                cf = b.fns["count%d" % k] = Recorded("count%d" % k, lambda idx: 2)
                c = cf
            cur = _with(cur, "throttle", c, block=L.get("block", False))
        elif t == "timeout":
            cur = _with(cur, "timeout", L.get("timeout", 1e6))
        elif t == "cos":
            cur = _with(cur, "cancel_on_shutdown")
        else:
            raise ValueError(t)
        b.executors.append(ctx.own(cur))
    b.top = cur
    return b


def _with(cur, what, *a, **k):
    m = getattr(cur, "with_" + what, None)
    if m is not None:
        return m(*a, **k)
    return getattr(instr.ME.Executors, "with_" + what)(cur, *a, **k)


def make_error_fn(kind, k):
    def behave(idx, ex):
        if kind == "wrap":
            raise OtherError("wrapped%d" % k, ex)
        if kind == "reraise":
            raise ex
        if kind == "recover":
            return ("rec%d" % k, type(ex).__name__)
        if kind == "recover_none":
            return None  # e.g. a handler that only logs the failure
        raise AssertionError(kind)
    return behave


class FlatFail(Exception):
    """outcome of a failed future handed back by a scripted flat-map function"""


class PollFail(Exception):
    """yielded by a scripted poll function"""


class BackendDown(Exception):
    """raised and handled inside a scripted poll function"""


def make_flat_fn(kind, k):
    def behave(idx, x):
        from more_executors.futures import f_return, f_return_error
        if kind == "raise_on_odd" and _parity(x):
            raise UserErrorB("fm%d-odd" % k)
        if (kind == "failed_if_recovered" and _has_rec(x)) or (kind == "failed_on_odd" and _parity(x)):
            # the function succeeds; the future it hands back has failed
            return f_return_error(FlatFail("fm%d" % k, x))
        return f_return(("fm%d" % k, x))
    return behave


def make_flat_error_fn(kind, k):
    def behave(idx, ex):
        from more_executors.futures import f_return, f_return_error
        if kind == "recover":
            return f_return(("frec%d" % k, type(ex).__name__))
        return f_return_error(OtherError("ferr%d" % k, ex))
    return behave


def _has_rec(x):
    if isinstance(x, tuple):
        return any(_has_rec(y) for y in x)
    return isinstance(x, str) and x.startswith("rec")


def _parity(x):
    # deterministic function of the value's submission id (innermost int)
    while isinstance(x, tuple):
        x = x[-1]
    return isinstance(x, int) and x % 2 == 1


class PolicyBoom(Exception):
    """raised by a scripted retry policy"""


class PollBoom(Exception):
    """raised by a scripted poll function"""


def make_poll_fn(mode, k, b):
    # (the function must not reference the stack it belongs to: reclamation scenarios look at what a raised
    # exception's traceback keeps alive)
    state = b.poll_state
    seen = state.setdefault(k, {})

    def behave(idx, descriptors):
        instr.LOG.add("poll.shown", k=k, idx=idx, results=[instr._short(d.result, 40) for d in descriptors])
        if mode == "raise_once" and descriptors and not state.get(("raised", k)):
            e = PollBoom("poll%d call %d" % (k, idx))
            state[("raised", k)] = (e, [d.result for d in descriptors])
            raise e
        for d in descriptors:
            key = id(d)
            n = seen.get(key, 0)
            seen[key] = n + 1
            if mode == "never" or (mode == "second_call" and n == 0):
                continue
            if mode == "fail_odd_in_handler" and _parity(d.result):
                # the poll function translates a failure it handled itself into this future's outcome
                try:
                    raise BackendDown("backend of poll%d" % k)
                except BackendDown:
                    d.yield_exception(PollFail("p%d" % k, d.result))
                continue
            d.yield_result(("p%d" % k, d.result))
        return None
    return behave


# --------------------------------------------------------------------------
# sequential model
# --------------------------------------------------------------------------
class Script(object):
    """Outcome script of one submission's callable: list of ('raise', cls) /
    ('ret',) consumed one per invocation; last element repeats."""

    def __init__(self, sid, steps):
        self.sid = sid
        self.steps = steps

    def step(self, i):
        return self.steps[min(i, len(self.steps) - 1)]


def gen_script(rng, sid):
    n_fail = rng.choice([0, 0, 0, 1, 1, 2, 3, 5])
    classes = [UserErrorA, UserErrorB, UserErrorA, OtherError]
    steps = [("raise", rng.choice(classes)) for _ in range(n_fail)]
    steps.append(("ret",) if rng.random() < 0.8 else ("raise", rng.choice(classes)))
    return Script(sid, steps)


def model(spec, script):
    """Expected (outcome, n_calls) of one submission evaluated sequentially.
    outcome = ('value', v) | ('exc', cls, origin) where origin is 'callable#i'
    (i-th invocation's own exception object) or a description."""
    calls = [0]

    def base():
        i = calls[0]
        calls[0] += 1
        st = script.step(i)
        if st[0] == "ret":
            return ("value", ("v", script.sid))
        return ("exc", st[1], "callable#%d" % i)

    def level(j):
        if j < 0:
            return base()
        L = spec["layers"][j]
        t, k = L["t"], L["k"]
        if t == "retry" and L.get("policy") == "sleep_raises":
            # the policy fails: the library stops retrying, the attempt's outcome stands
            return level(j - 1)
        if t == "retry":
            attempts = 0
            while True:
                o = level(j - 1)
                attempts += 1
                if o[0] == "value":
                    return o
                if attempts >= L.get("max_attempts", 3):
                    return o
                if not issubclass(o[1], EXC_BASES[L.get("base", "Exception")]):
                    return o
        o = level(j - 1)
        if t == "map":
            if o[0] == "value":
                if L.get("fn", "tag") == "tag":
                    return ("value", ("m%d" % k, o[1]))
                return o
            ek = L.get("error_fn")
            if not ek or ek == "reraise":
                return o
            if ek == "wrap":
                return ("exc", OtherError, "err%d" % k)
            if ek == "recover":
                return ("value", ("rec%d" % k, o[1].__name__))
            if ek == "recover_none":
                return ("value", None)
        if t == "flat_map":
            if o[0] == "value":
                fk = L.get("fn", "ret")
                if fk == "none":
                    # default fn is f_return: value wrapped and flattened again
                    return o
                if fk == "raise_on_odd" and _parity(o[1]):
                    return ("exc", UserErrorB, "fmap%d" % k)
                if (fk == "failed_if_recovered" and _has_rec(o[1])) or (fk == "failed_on_odd" and _parity(o[1])):
                    return ("exc", FlatFail, "fmap%d" % k)
                return ("value", ("fm%d" % k, o[1]))
            ek = L.get("error_fn")
            if ek == "recover":
                return ("value", ("frec%d" % k, o[1].__name__))
            if ek == "refail":
                return ("exc", OtherError, "ferr%d" % k)
            return o
        if t == "poll":
            if o[0] == "value":
                if L.get("mode") == "fail_odd_in_handler" and _parity(o[1]):
                    return ("exc", PollFail, "poll%d" % k)
                return ("value", ("p%d" % k, o[1]))
            return o
        return o  # throttle, timeout (never fires), cos

    out = level(len(spec["layers"]) - 1)
    return out, calls[0]


def make_callable(script, log_id=None):
    """The real callable for a script: raises fresh instances, remembers them."""
    raised = []

    def behave(idx, *args, **kwargs):
        st = script.step(idx)
        if st[0] == "ret":
            return ("v", script.sid)
        e = st[1]("sid%s#%d" % (script.sid, idx))
        raised.append(e)
        raise e

    r = Recorded(log_id or ("call%s" % script.sid), behave)
    r.raised = raised
    r.script = script
    return r


def spec_name(spec):
    return spec["base"] + ":" + ">".join(L["t"] for L in spec["layers"])
