"""Worker process: reads one JSON case per line on stdin, runs it against the
library under instrumentation, writes one JSON result per line on stdout."""
import sys
import os
import gc
import json
import time
import importlib
import traceback
import faulthandler


def main():
    prop = sys.argv[1]
    out = os.fdopen(os.dup(1), "w")
    # anything the library or user code prints must not corrupt the protocol
    os.dup2(2, 1)
    faulthandler.enable(file=sys.stderr)
    mod = importlib.import_module("vf.props." + prop.lower())
    from vf import instr, harness

    t0 = time.time()
    try:
        instr.install(fakeprom=getattr(mod, "FAKEPROM", False))
    except BaseException as e:
        out.write(json.dumps({"fatal": "import-error", "msg": "%s: %s" % (type(e).__name__, e),
                              "tb": traceback.format_exc().splitlines()[-8:]}) + "\n")
        out.flush()
        os._exit(3)
    gc.disable()
    out.write(json.dumps({"ready": True, "engage": instr.ENGAGE, "t": time.time() - t0}) + "\n")
    out.flush()
    for line in sys.stdin:
        line = line.strip()
        if not line:
            continue
        case = json.loads(line)
        if case.get("quit"):
            break
        res = harness.Result()
        harness.DEFAULT_GRAN[0] = case.get("gran_default", "line")
        t1 = time.time()
        c0 = instr.counters()
        try:
            mod.run_case(case, res)
        except instr.Inconclusive as e:
            res.inconclusive.append("%s: %s" % (case.get("name"), e))
        except BaseException as e:
            res.inconclusive.append(
                "harness error in %s: %s: %s | %s"
                % (case.get("name"), type(e).__name__, e, " / ".join(traceback.format_exc().splitlines()[-6:]))
            )
        j = res.to_json()
        j["case"] = case
        j["wall"] = time.time() - t1
        c1 = instr.counters()
        j["counters_global"] = {k: c1[k] - c0.get(k, 0) for k in c1}
        j["lock_edges"] = sorted("%s -> %s" % k for k in instr.LM.edges)
        j["event_kinds"] = dict(instr.LOG.kinds)
        j["recycle"] = bool(harness.need_recycle())  # this process ends after the case: the parent must not reuse it
        instr.LOG.kinds = {}
        out.write(json.dumps(j, default=repr) + "\n")
        out.flush()
        if harness.need_recycle():
            break
    out.flush()
    os._exit(0)


if __name__ == "__main__":
    main()
