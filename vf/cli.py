"""Parent process of a check: shards cases over worker subprocesses, classifies
violations against known_findings.json, writes the evidence file, prints the
verdict lines (DESIGN.md sections 2.7, 4, 11).  Never imports more_executors."""
import sys
import os
import json
import time
import fnmatch
import argparse
import threading
import importlib
import subprocess
import queue
import re

ROOT = os.path.dirname(os.path.dirname(os.path.abspath(__file__)))
PY = os.environ.get("VERIF_PYTHON", "/venv/bin/python")


class Worker(object):
    def __init__(self, prop, wid, env):
        self.prop = prop
        self.wid = wid
        self.env = env
        self.p = None
        self.ready = None
        self.spawn()

    def spawn(self):
        self.stderr_path = os.path.join(ROOT, ".work", "worker-%s-%d.err" % (self.prop, self.wid))
        os.makedirs(os.path.dirname(self.stderr_path), exist_ok=True)
        self.errf = open(self.stderr_path, "ab")
        self.p = subprocess.Popen(
            [PY, "-B", "-u", "-m", "vf.worker", self.prop],
            stdin=subprocess.PIPE,
            stdout=subprocess.PIPE,
            stderr=self.errf,
            cwd=ROOT,
            env=self.env,
            text=True,
            bufsize=1,
        )
        self.q = queue.Queue()
        t = threading.Thread(target=self._reader, args=(self.p, self.q), daemon=True)
        t.start()
        self.ready = self.read(120)

    @staticmethod
    def _reader(p, q):
        try:
            for line in p.stdout:
                line = line.strip()
                if line.startswith("{"):
                    try:
                        q.put(json.loads(line))
                    except ValueError:
                        pass
        finally:
            q.put(None)

    def read(self, timeout):
        try:
            return self.q.get(timeout=timeout)
        except queue.Empty:
            return "timeout"

    def send(self, case):
        try:
            self.p.stdin.write(json.dumps(case) + "\n")
            self.p.stdin.flush()
            return True
        except (BrokenPipeError, OSError, ValueError):
            return False

    def kill(self):
        try:
            self.p.kill()
        except Exception:
            pass
        try:
            self.p.wait(5)
        except Exception:
            pass

    def close(self):
        try:
            self.send({"quit": True})
            self.p.wait(3)
        except Exception:
            self.kill()
        try:
            self.errf.close()
        except Exception:
            pass

    def alive(self):
        return self.p.poll() is None


FAIL_FAST = int(os.environ.get("VERIF_FAIL_FAST", "60"))


def run_cases(prop, cases, jobs, watchdog, env, progress=False):
    """Returns list of result dicts (one per case, in completion order)."""
    known_patterns = [k["mechanism"] for k in load_known() if k.get("property") == prop and k.get("status") == "known"]
    bad_cases = [0]
    skipped = [0]
    todo = queue.Queue()
    for c in cases:
        todo.put((c, 0))
    results = []
    fatal = []
    engage = {}
    lock = threading.Lock()

    def loop(wid):
        w = None
        while True:
            try:
                case, attempt = todo.get_nowait()
            except queue.Empty:
                break
            if FAIL_FAST and bad_cases[0] >= FAIL_FAST:
                # the verdict is settled (that many cases with unlisted violations): the remaining cases are not run
                with lock:
                    skipped[0] += 1
                continue
            if w is None or not w.alive():
                if w is not None:
                    w.close()
                w = Worker(prop, wid, env)
                r = w.ready
                if not isinstance(r, dict) or not r.get("ready"):
                    with lock:
                        fatal.append(r if isinstance(r, dict) else {"fatal": "worker-start", "msg": repr(r)})
                    w.kill()
                    return
                with lock:
                    engage.update(r.get("engage") or {})
            if not w.send(case):
                w.kill()
                w = None
                todo.put((case, attempt))
                continue
            r = w.read(watchdog)
            if r == "timeout" or r is None:
                why = "watchdog %ss" % watchdog if r == "timeout" else "worker died"
                # dump stacks via faulthandler is already in stderr on fatal signals
                w.kill()
                w = None
                if attempt < 1:
                    todo.put((case, attempt + 1))
                else:
                    with lock:
                        results.append({"case": case, "execs": 0, "keys": [], "violations": [],
                                        "inconclusive": ["%s: %s" % (case.get("name"), why)],
                                        "counters": {}, "samples": [], "sites": [], "wall": watchdog})
                continue
            if r.get("recycle"):
                # the worker said it exits after this case (a hang or deadlock left threads behind)
                w.close()
                w = None
            if r.get("inconclusive") and not r.get("violations") and attempt < 1:
                # one retry in a fresh worker before the case counts as inconclusive
                if w is not None:
                    w.close()
                w = None
                todo.put((case, attempt + 1))
                continue
            with lock:
                results.append(r)
                if any(not any(fnmatch.fnmatchcase(v.get("mech", ""), pat) for pat in known_patterns)
                       for v in r.get("violations", [])):
                    bad_cases[0] += 1
                if progress:
                    sys.stderr.write("  [%d/%d] %s %.1fs v=%d\n" % (
                        len(results), len(cases), case.get("name"), r.get("wall", 0), len(r.get("violations", []))))
        if w is not None:
            w.close()

    threads = [threading.Thread(target=loop, args=(i,), daemon=True) for i in range(jobs)]
    for t in threads:
        t.start()
    for t in threads:
        t.join()
    if skipped[0]:
        sys.stderr.write("  (%d cases not run: %d cases had already reported unlisted violations)\n" % (skipped[0], bad_cases[0]))
    return results, fatal, engage


def load_known():
    path = os.path.join(ROOT, "known_findings.json")
    try:
        return json.load(open(path))
    except FileNotFoundError:
        return []


def lock_cycles(edges):
    """Label-level cycles (length 2-3) in the lock acquisition order graph observed in this run.
    Only informational: a definite deadlock is reported by the lock monitor itself; many label-level
    cycles are between locks of different objects of the same class (future A -> future B)."""
    g = {}
    for e in edges:
        a, _, b = e.partition(" -> ")
        if a != b:
            g.setdefault(a, set()).add(b)
    out = set()
    for a in g:
        for b in g[a]:
            if a in g.get(b, ()):
                out.add(" <-> ".join(sorted((a, b))))
            for c in g.get(b, ()):
                if c != a and a in g.get(c, ()):
                    out.add(" -> ".join(sorted((a, b, c))) + " (3-cycle)")
    return sorted(out)[:20]


def slug(s):
    return re.sub(r"[^A-Za-z0-9_.+-]+", "_", s)[:80]


def main(argv=None):
    ap = argparse.ArgumentParser()
    ap.add_argument("prop")
    ap.add_argument("--tier", default=os.environ.get("VERIF_TIER", "quick"))
    ap.add_argument("--replay")
    ap.add_argument("--jobs", type=int, default=int(os.environ.get("VERIF_JOBS", "0")) or min(16, os.cpu_count() or 4))
    ap.add_argument("--only", help="substring filter on case names")
    ap.add_argument("--progress", action="store_true")
    ap.add_argument("--no-evidence", action="store_true")
    a = ap.parse_args(argv)
    prop = a.prop.upper()
    tier = a.tier if a.tier in ("quick", "thorough") else "quick"
    try:
        seed = int(os.environ.get("VERIF_SEED", "0"))
    except ValueError:
        seed = 0
    t0 = time.time()
    sys.path.insert(0, ROOT)
    mod = importlib.import_module("vf.props." + prop.lower())
    env = dict(os.environ)
    env["MORE_EXECUTORS_VERIF"] = "1"
    env["PYTHONPATH"] = ROOT
    env.setdefault("PYTHONHASHSEED", "0")
    env.pop("MORE_EXECUTORS_DEBUG", None)

    if a.replay:
        rp = json.load(open(a.replay))
        cases = [rp["case"]]
        jobs = 1
    else:
        cases = mod.cases(tier, seed)
        if tier == "thorough":
            # every depth-1 placement sweep once more with suspension points at bytecode-instruction boundaries
            skip = getattr(mod, "NO_INSTR_TWIN", ())
            twins = [dict(c, name=c["name"] + "@instr", gran_default="instr") for c in cases
                     if "cap" in c and not c.get("gran") and c.get("kind") not in skip]
            cases = cases + twins
        if a.only:
            cases = [c for c in cases if a.only in c["name"]]
        jobs = max(1, min(a.jobs, len(cases)))
    for i, c in enumerate(cases):
        c.setdefault("seed", seed)
        c.setdefault("tier", tier)
    # the watchdog only ends workers that stopped reporting; generous so that a loaded machine does not trip it
    watchdog = getattr(mod, "WATCHDOG", {"quick": 900, "thorough": 3600})[tier]
    results, fatal, engage = run_cases(prop, cases, jobs, watchdog, env, a.progress)

    known = [k for k in load_known() if k.get("property") == prop]
    evaluations = 0
    keys = set()
    counters = {}
    gcount = {}
    samples = []
    sites = set()
    edges = set()
    viol = {}
    incon = []
    ekinds = {}
    for r in results:
        evaluations += r.get("execs", 0)
        keys.update(r.get("keys", []))
        sites.update(r.get("sites", []))
        edges.update(r.get("lock_edges", []))
        for k, v in (r.get("counters") or {}).items():
            counters[k] = counters.get(k, 0) + v
        for k, v in (r.get("counters_global") or {}).items():
            gcount[k] = gcount.get(k, 0) + v
        for k, v in (r.get("event_kinds") or {}).items():
            ekinds[k] = ekinds.get(k, 0) + v
        for s in r.get("samples", []):
            if len(samples) < 6:
                samples.append(s)
        for v in r.get("violations", []):
            e = viol.setdefault(v["mech"], {"mech": v["mech"], "msg": v["msg"], "count": 0, "case": r["case"], "detail": v.get("detail")})
            e["count"] += v.get("count", 1)
        incon.extend(r.get("inconclusive", []))
    for f in fatal:
        viol.setdefault("import-error", {"mech": "import-error", "msg": "%s %s" % (f.get("fatal"), f.get("msg")), "count": 1,
                                         "case": {"name": "worker-start"}, "detail": f})

    lines = []
    new_viol = []
    known_hit = []
    for mech, v in sorted(viol.items()):
        hit = None
        for k in known:
            if k.get("status") == "known" and fnmatch.fnmatchcase(mech, k["mechanism"]):
                hit = k
                break
        if hit is not None:
            known_hit.append((mech, hit, v))
            lines.append("KNOWN-FINDING: property=%s %s [%s] (%d occurrence(s))" % (prop, hit.get("what", ""), mech, v["count"]))
        else:
            os.makedirs(os.path.join(ROOT, "replays"), exist_ok=True)
            path = os.path.join(ROOT, "replays", "%s-%s.json" % (prop, slug(mech)))
            json.dump({"property": prop, "mechanism": mech, "msg": v["msg"], "case": v["case"], "tier": tier, "seed": seed,
                       "count": v["count"], "detail": v["detail"]}, open(path, "w"), indent=1, default=repr)
            new_viol.append((mech, v, path))
            lines.append("VIOLATION property=%s replay=%s" % (prop, path))
            lines.append("  mechanism: %s\n  what: %s\n  occurrences: %d, first case: %s" % (mech, v["msg"], v["count"], v["case"].get("name")))

    required = getattr(mod, "REQUIRED", ["line_events", "lock_acquisitions"])
    gate_fail = [k for k in required if not (gcount.get(k) or counters.get(k))]
    if engage.get("bound") is not None:
        b = engage["bound"]
        if not (b.get("lock") or b.get("rlock")):
            gate_fail.append("bound.locks")
    status = "held"
    if new_viol:
        status = "violated"
    elif not a.replay and (gate_fail or incon or evaluations == 0 or len(keys) < 2):
        status = "inconclusive"
        why = []
        if gate_fail:
            why.append("monitors never engaged: %s" % ",".join(gate_fail))
        if incon:
            why.append("%d inconclusive case(s), first: %s" % (len(incon), incon[0][:300]))
        if evaluations == 0:
            why.append("no executions")
        if len(keys) < 2:
            why.append("deciding events observed in <2 distinct cases")
        lines.append("INCONCLUSIVE property=%s reason=%s" % (prop, "; ".join(why)))

    wall = time.time() - t0
    if not a.replay and not a.no_evidence:
        cov = {
            "evaluations": evaluations,
            "distinct_nontrivial": len(keys),
            "rule": getattr(mod, "RULE", ""),
            "samples": samples or [{"note": "no samples recorded"}],
            "exhaustive": False,
            "cases": len(cases),
            "monitor_counters": counters,
            "engagement": {"bound_names": engage.get("bound"), "instrumented_code_objects": engage.get("code_objects"),
                           "totals": gcount},
            "boundary_events_by_kind": dict(sorted(ekinds.items(), key=lambda kv: -kv[1])[:25]),
            "placement_sites": len(sites),
            "placement_sites_sample": sorted(sites)[:25],
            "lock_order_edges": sorted(edges)[:60],
            "lock_order_cycles_potential": lock_cycles(edges),
            "status": status,
            "inconclusive_cases": incon[:10],
            "known_findings_seen": [m for m, _, _ in known_hit],
            "violations_new": [m for m, _, _ in new_viol],
        }
        ev = {
            "property_id": prop,
            "tier": tier,
            "seed": seed,
            "level": "exploration",
            "coverage": cov,
            "assumptions": getattr(mod, "ASSUMPTIONS", []) + [
                "CPython %d.%d; verdict covers only the executions produced by this run" % sys.version_info[:2],
                "instrumentation (virtual clock, traced locks, LINE pause points) does not change library semantics",
            ],
            "wall_s": round(wall, 2),
            "violations": len(new_viol),
        }
        os.makedirs(os.path.join(ROOT, "evidence"), exist_ok=True)
        p = os.path.join(ROOT, "evidence", "%s.json" % prop)
        tmp = p + ".tmp"
        json.dump(ev, open(tmp, "w"), indent=1, default=repr)
        os.replace(tmp, p)

    print("%s %s tier=%s seed=%d: %d cases, %d executions, %d distinct non-trivial, %d placement sites, %.1fs -> %s" % (
        prop, getattr(mod, "TITLE", ""), tier, seed, len(cases), evaluations, len(keys), len(sites), wall, status.upper()))
    for k in sorted(counters):
        print("  %s=%s" % (k, counters[k]))
    for ln in lines:
        print(ln)
    if a.replay:
        return 1 if viol else 0
    if status == "violated":
        return 1
    if status == "inconclusive":
        return 2
    return 0


if __name__ == "__main__":
    sys.exit(main())
