"""vf - runtime-monitoring framework for more-executors (see /verif/DESIGN.md)."""
