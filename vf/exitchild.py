"""Child process for C12(b): an executor is created and brought to a state, then the
interpreter exits - optionally with the worker thread paused at its k-th statement
(released only after the library's exit hook ran), or with the exit hook itself
paused at its k-th statement while the woken workers run.

usage: python -m vf.exitchild <kind> <state> <mode> <k>
  kind  retry|poll|throttle|timeout     state idle|busy|backoff|polling
  mode  plain | worker <k> | hook <k> | trace-worker | trace-hook
Prints one JSON line on stdout.  Exit code 0 and empty stderr are expected; exit
code 3 + 'LEAK' lines when a worker thread is still alive after the exit hook."""
import sys
import os
import json
import time
import atexit
import threading

STATE = {"threads": [], "arm": None}


def final_check():
    # runs last: every worker thread the library created must have exited
    leaks = []
    arm = STATE.get("arm")
    if arm is not None and arm.trace is not None:
        sys.stdout.write(json.dumps({"hook_trace_len": len(arm.trace)}) + "\n")
        sys.stdout.flush()
    for t in STATE["threads"]:
        t.join(1.5) if t is not threading.current_thread() else None
        if t.is_alive():
            leaks.append(getattr(t, "vf_role", t.name))
    if leaks:
        sys.stderr.write("LEAK %s\n" % ",".join(leaks))
        sys.stderr.flush()
        os._exit(3)


def release_victim():
    # runs after the library's own exit hook (registered later => runs earlier)
    from vf import instr
    instr.TR.disarm()


def main():
    kind, state, mode = sys.argv[1], sys.argv[2], sys.argv[3]
    k = int(sys.argv[4]) if len(sys.argv) > 4 else None
    atexit.register(final_check)
    atexit.register(release_victim)
    from vf import instr
    instr.install()
    instr.set_mode("rt")
    ME = instr.ME
    base = ME.Executors.sync()
    gate = threading.Event()
    n0 = len(instr.TRACKED)
    if kind == "retry":
        ex = base.with_retry(max_attempts=5, sleep=30.0)
    elif kind == "poll":
        def poll_fn(ds):
            if state != "polling":
                for d in ds:
                    d.yield_result(1)
            return 30.0
        ex = base.with_poll(poll_fn, default_interval=30.0)
    elif kind == "throttle":
        ex = base.with_throttle(1)
    else:
        ex = base.with_timeout(30.0)
    threads = STATE["threads"] = list(instr.TRACKED[n0:])
    role = threads[-1].vf_role
    time.sleep(0.05)
    arm = None
    if mode in ("worker", "trace-worker"):
        arm = instr.TR.arm(role, pause_k=k if mode == "worker" else None, record=(mode == "trace-worker"))
    futs = []

    # every library call is made from a helper thread: the main thread must stay free to exit even if
    # the (paused) worker holds a lock that submit() needs
    def feeder():
        if state == "busy":
            for i in range(5):
                futs.append(ex.submit(lambda i=i: i))
        elif state == "backoff":
            def bad():
                raise ValueError("x")
            futs.append(ex.submit(bad))
        elif state == "polling":
            futs.append(ex.submit(lambda: 1))
        else:
            # idle: still wake the worker once so that it iterates
            if hasattr(ex, "notify"):
                ex.notify()
            else:
                futs.append(ex.submit(lambda: 0))
    threading.Thread(target=feeder, daemon=True).start()
    out = {"kind": kind, "state": state, "mode": mode, "k": k}
    if mode == "worker":
        t_end = time.time() + 5
        while not arm.paused and time.time() < t_end:
            time.sleep(0.002)
        out["hit"] = arm.paused
        out["site"] = arm.site
    else:
        time.sleep(0.08)
    if mode == "trace-worker":
        out["trace_len"] = len(arm.trace)
    if mode in ("hook", "trace-hook"):
        # the main thread is the victim: paused (for 60 ms) at the k-th statement the exit
        # hook executes, while the workers it has already woken run
        instr.set_role("M")
        instr.Tracer.PAUSE_MAX = 0.06
        STATE["arm"] = instr.TR.arm("M", pause_k=k if mode == "hook" else None, record=(mode == "trace-hook"))
    sys.stdout.write(json.dumps(out) + "\n")
    sys.stdout.flush()
    # fall off the end: normal interpreter exit with the executor still referenced
    STATE["keep"] = (ex, futs)


if __name__ == "__main__":
    main()
