"""Stand-in for prometheus_client (C20): Counter / Gauge with labels(), inc(), dec();
every child remembers its current value and the minimum it ever had."""
import _thread

REG = {}
LOCK = _thread.allocate_lock()


class _Child(object):
    def __init__(self, parent, key):
        self.parent, self.key, self.value, self.min = parent, key, 0, 0
        self.ops = 0

    def inc(self, v=1):
        with LOCK:
            self.value += v
            self.ops += 1
            if self.value < self.min:
                self.min = self.value

    def dec(self, v=1):
        if not self.parent.is_gauge:
            raise AttributeError("Counter has no dec()")
        with LOCK:
            self.value -= v
            self.ops += 1
            if self.value < self.min:
                self.min = self.value


class _Metric(object):
    is_gauge = False

    def __init__(self, name, documentation, labelnames=(), namespace="", **kw):
        self.name = (namespace + "_" if namespace else "") + name
        self.labelnames = tuple(labelnames)
        self.children = {}
        REG[name] = self

    def labels(self, *args, **kw):
        if args:
            kw = dict(zip(self.labelnames, args))
        if set(kw) != set(self.labelnames):
            raise ValueError("Incorrect label names for %s: %s (expected %s)" % (self.name, sorted(kw), self.labelnames))
        key = tuple(sorted((k, str(v)) for k, v in kw.items()))
        with LOCK:
            c = self.children.get(key)
            if c is None:
                c = self.children[key] = _Child(self, key)
        return c


class Counter(_Metric):
    pass


class Gauge(_Metric):
    is_gauge = True


def get(name, **labels):
    m = REG.get(name)
    if m is None:
        return None
    key = tuple(sorted((k, str(v)) for k, v in labels.items()))
    c = m.children.get(key)
    return None if c is None else c.value


def minimum(name, **labels):
    m = REG.get(name)
    key = tuple(sorted((k, str(v)) for k, v in labels.items()))
    c = m.children.get(key) if m else None
    return None if c is None else c.min


def dump(executor=None):
    out = {}
    for n, m in REG.items():
        for k, c in m.children.items():
            d = dict(k)
            if executor is not None and d.get("executor") != executor:
                continue
            out[(n,) + k] = (c.value, c.min, m.is_gauge)
    return out
