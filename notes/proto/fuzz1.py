"""unknown-unknowns probe: random client programs + yield injection on every executor type (real time, thread pool base)"""
import sys, threading, time, random, itertools, traceback, collections
from concurrent.futures import Future, CancelledError, wait, TimeoutError as FTimeout
import more_executors
from more_executors import *
import mon, logging
seed = int(sys.argv[1]) if len(sys.argv) > 1 else 0
dur = float(sys.argv[2]) if len(sys.argv) > 2 else 20
rng = random.Random(seed)
sys.setswitchinterval(1e-5)
class H(logging.Handler):
    recs = []
    def emit(self, r):
        if r.levelno >= logging.ERROR: H.recs.append(r.getMessage()[:150] + ' | ' + (str(r.exc_info[1])[:120] if r.exc_info else ''))
logging.getLogger().addHandler(H()); logging.getLogger().setLevel(logging.ERROR)
THREAD_EXC = []
threading.excepthook = lambda a: THREAD_EXC.append((a.thread.name, repr(a.exc_value), ''.join(traceback.format_tb(a.exc_traceback))[-600:]))
tr = mon.Tracer('more_executors'); tr.install()
tl = threading.local()
P = 0.03
def on_line(code, line):
    r = getattr(tl, 'r', None)
    if r is None: r = tl.r = random.Random(hash((seed, threading.current_thread().name)) & 0xffffffff)
    x = r.random()
    if x < P: time.sleep(0)
    elif x < P + 0.0005: time.sleep(0.0005)
sys.monitoring.register_callback(mon.TOOL, mon.E.LINE, on_line)

class Boom(Exception): pass
def poll_fn(ds):
    for d in ds:
        if isinstance(d.result, int) and d.result % 7 == 3: d.yield_exception(Boom('poll'))
        else: d.yield_result(d.result)
    return 0.0005
def cancel_fn(r): 
    if isinstance(r, int) and r % 5 == 0: raise RuntimeError('cancel boom')
    return not (isinstance(r, int) and r % 3 == 0)
class Pol(RetryPolicy):
    def should_retry(self, a, f): return a < 3 and (f.exception() is not None or (f.result() % 11 == 0))
    def sleep_time(self, a, f): return 0.0002
def build(kind, base):
    if kind == 'retry': return base.with_retry(Pol())
    if kind == 'retry_exc': return base.with_retry(max_attempts=3, sleep=0.0001)
    if kind == 'map': return base.with_map(lambda x: x, error_fn=None)
    if kind == 'flat_map': return base.with_flat_map(lambda x: f_return(x))
    if kind == 'poll': return base.with_poll(poll_fn, cancel_fn, default_interval=0.0005)
    if kind == 'throttle': return base.with_throttle(2)
    if kind == 'timeout': return base.with_timeout(0.002 if rng.random() < .5 else 60)
    if kind == 'cos': return base.with_cancel_on_shutdown()
KINDS = ['retry', 'retry_exc', 'map', 'flat_map', 'poll', 'throttle', 'timeout', 'cos']
stats = collections.Counter(); problems = []
t_end = time.time() + dur
case = 0
while time.time() < t_end:
    case += 1
    depth = rng.randint(1, 3)
    kinds = [rng.choice(KINDS) for _ in range(depth)]
    base = Executors.thread_pool(max_workers=rng.randint(1, 3)) if rng.random() < .7 else Executors.sync()
    ex = base
    for k in kinds: ex = build(k, ex)
    futures = []; flock = threading.Lock(); cb_counts = collections.Counter(); api_exc = []
    def fn(i):
        if i % 4 == 1: raise Boom(i)
        if i % 9 == 0: time.sleep(0.0003)
        return i
    def actor(aid):
        r = random.Random(seed * 1000 + case * 10 + aid)
        for step in range(r.randint(3, 10)):
            op = r.choice(['submit', 'submit', 'cancel', 'cb', 'result', 'cancel'])
            try:
                if op == 'submit':
                    f = ex.submit(fn, r.randint(0, 50))
                    with flock: futures.append(f)
                else:
                    with flock: f = r.choice(futures) if futures else None
                    if f is None: continue
                    if op == 'cancel':
                        v = f.cancel(); assert isinstance(v, bool), v
                        if v and not f.cancelled(): problems.append(('cancel True not cancelled', kinds))
                    elif op == 'cb':
                        key = (id(f), aid, step)
                        def cb(ff, key=key):
                            if not ff.done(): problems.append(('cb before done', kinds))
                            cb_counts[key] += 1
                        cb_counts[key] += 0
                        f.add_done_callback(cb)
                    elif op == 'result':
                        try: f.result(0.001)
                        except (CancelledError, FTimeout, Boom): pass
            except RuntimeError as e:
                if 'cannot schedule new futures' not in str(e): api_exc.append((op, repr(e)))
            except BaseException as e:
                api_exc.append((op, repr(e), traceback.format_exc()[-500:]))
    ts = [threading.Thread(target=actor, args=(a,)) for a in range(3)]
    [t.start() for t in ts]; [t.join(20) for t in ts]
    if any(t.is_alive() for t in ts): problems.append(('ACTOR HANG', kinds)); break
    # all futures must finish (timeouts may cancel)
    dl = time.time() + 10
    for f in futures:
        try: f.result(max(0.01, dl - time.time()))
        except (CancelledError, Boom): pass
        except FTimeout: problems.append(('NOT DONE', kinds, repr(f), type(base).__name__)); break
    sh = threading.Thread(target=ex.shutdown, args=(True,)); sh.start(); sh.join(10)
    if sh.is_alive(): problems.append(('SHUTDOWN HANG', kinds)); break
    time.sleep(0.002)
    for k, v in cb_counts.items():
        if v != 1: problems.append(('cb count', v, kinds))
    for e in api_exc: problems.append(('API EXC', kinds, type(base).__name__) + e)
    stats['cases'] += 1; stats['futures'] += len(futures)
print('seed', seed, dict(stats), 'problems', len(problems), 'thread_exc', len(THREAD_EXC), 'log_errors', len(H.recs))
seen = set()
for p in problems:
    k = str(p[:1]) + str(p[3:5] if len(p) > 3 else '')
    if k in seen: continue
    seen.add(k); print(' P', str(p)[:700])
for t in THREAD_EXC[:5]: print(' T', t[0], t[1], t[2][-300:])
for m, c in collections.Counter(x.split('<')[0][:100] for x in H.recs).most_common(8): print(' L', c, m)
