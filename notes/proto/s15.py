import time, gc, weakref
from concurrent.futures import Future
from more_executors import *
class Manual:
    def __init__(self): self.fs=[]
    def submit(self, fn, *a, **k):
        f = Future(); self.fs.append(f); return f
    def shutdown(self, wait=True, **kw): pass
class Fn:
    def __call__(self): return 1
def wr(mk):
    d = Manual(); e = mk(d); fn = Fn(); arg = Fn()
    f = e.submit(fn, arg); time.sleep(0.2)
    return d, e, f, weakref.ref(fn), weakref.ref(arg)
for nm, mk in [('retry', lambda d: RetryExecutor(d)), ('throttle', lambda d: ThrottleExecutor(d, 1)), ('timeout', lambda d: TimeoutExecutor(d, 1000)), ('poll', lambda d: PollExecutor(d, lambda ds: None)), ('map', lambda d: MapExecutor(d, lambda x: x)), ('cos', lambda d: CancelOnShutdownExecutor(d))]:
    d, e, f, wfn, warg = wr(mk)
    c = f.cancel(); wf = weakref.ref(f); del f
    d.fs.clear(); time.sleep(0.2); gc.collect()
    print(nm, 'cancel in flight', c, 'fn alive', wfn() is not None, 'arg alive', warg() is not None, 'future alive', wf() is not None, getattr(e, '_jobs', None))
    # queued cancel for throttle
    if nm == 'throttle':
        f1 = e.submit(Fn()); fn2 = Fn(); f2 = e.submit(fn2); w2 = weakref.ref(fn2); del fn2
        time.sleep(0.2); print(' queued cancel', f2.cancel()); wf2 = weakref.ref(f2); del f2; gc.collect(); print(' fn alive', w2() is not None, wf2() is not None)
    if nm == 'retry':
        d, e, f, wfn, warg = wr(mk)
        d.fs[0].set_exception(ValueError()); time.sleep(0.2)
        print(' between retries cancel', f.cancel()); wf = weakref.ref(f); del f; d.fs.clear(); gc.collect()
        print(' fn alive', wfn() is not None, 'future alive', wf() is not None, e._jobs)
