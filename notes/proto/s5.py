import threading, time, sys
from concurrent.futures import Future
import more_executors
from more_executors import *
import vclock
vclock.install()
C = vclock.CLOCK
import mon
from mon import TOOL, E
import linecache, logging; logging.disable(logging.CRITICAL)
sites = {}
def on_line(code, line):
    if threading.current_thread().name.startswith('Throttle'):
        txt = linecache.getline(code.co_filename, line).strip()
        s = sites.get(txt)
        if s and not s[0].is_set():
            s[0].set(); s[1].wait(5)
tr = mon.Tracer("more_executors"); tr.install()
sys.monitoring.register_callback(TOOL, E.LINE, on_line)
class Manual:
    def __init__(self): self.fs=[]
    def submit(self, fn, *a, **k):
        f = Future(); self.fs.append(f); return f
    def shutdown(self, wait=True, **kw): pass
before = set(threading.enumerate())
d = Manual(); e = ThrottleExecutor(d, 1, block=True)
workers = set(threading.enumerate()) - before
f1 = e.submit(lambda: 1); vclock.settle(workers)
f2 = e.submit(lambda: 2); vclock.settle(workers)
print('handed', len(d.fs), 'queue', len(e._to_submit))
res = {}
def sub3():
    t0 = C.now; res['f3'] = e.submit(lambda: 3); res['dt'] = C.now - t0
t3 = threading.Thread(target=sub3, daemon=True); t3.start()
time.sleep(0.2)   # submitter is parked in event.wait(30)
# pause throttle thread right after it clears the event, before popping
s = sites['throttle = executor._eval_throttle()'] = (threading.Event(), threading.Event())
d.fs[0].set_result(1)       # completion: decr + set -> both wake
assert s[0].wait(2)
time.sleep(0.2)             # submitter re-checks queue (still full) and waits again on the cleared event
s[1].set()
time.sleep(0.2)
print('after completion: handed', len(d.fs), 'queue', len(e._to_submit), 'submit3 returned', 'f3' in res)
workers2 = workers | {t3}
vclock.advance(workers2, C.now + 100)
t3.join(2)
print('submit3 blocked for virtual seconds:', res.get('dt'))
