import threading, time, sys, itertools, random
from concurrent.futures import Future, CancelledError
from more_executors import *
import logging; logging.disable(logging.CRITICAL)
sys.setswitchinterval(1e-6)
SEQ = itertools.count(); LOCK = threading.Lock()
def seq():
    with LOCK: return next(SEQ)
class Spy(Future):
    def __init__(self, i): super().__init__(); self.i = i; self.cancel_calls = 0
    def cancel(self): self.cancel_calls += 1; return super().cancel()
def outcome(f):
    if f.cancelled(): return ('C',)
    if f.exception() is not None: return ('E', f.exception())
    return ('V', f.result())
def apply_out(spy, o):
    a = seq()
    try:
        if o[0] == 'V': spy.set_result(o[1])
        elif o[0] == 'E': spy.set_exception(o[1])
        else:
            if spy.cancel():
                try: spy.set_running_or_notify_cancel()
                except RuntimeError: pass
    except Exception as e:   # InvalidStateError: already cancelled by the combinator
        pass
    return a, seq()
def or_fold(order, outs):
    last = None
    for i in order:
        last = outs[i]
        if outs[i][0] == 'V' and outs[i][1]: return outs[i]
    return last
def and_fold(order, outs):
    last = None
    for i in order:
        last = outs[i]
        if not (outs[i][0] == 'V' and outs[i][1]): return outs[i]
    return last
VALS = [('V', 0), ('V', ''), ('V', 5), ('V', [1]), ('E', ValueError('e1')), ('E', KeyError('e2')), ('C',)]
rng = random.Random(3)
bad = 0; n = 0; overlapped = 0
for it in range(3000):
    k = rng.randint(2, 4)
    outs = [rng.choice(VALS) for _ in range(k)]
    spies = [Spy(i) for i in range(k)]
    op = rng.choice(['and', 'or'])
    out = (f_and if op == 'and' else f_or)(*spies)
    ivs = [None]*k
    barrier = threading.Barrier(k)
    def work(i):
        barrier.wait(); ivs[i] = apply_out(spies[i], outs[i])
    ts = [threading.Thread(target=work, args=(i,)) for i in range(k)]
    [t.start() for t in ts]; [t.join() for t in ts]
    if not out.done(): print('NOT DONE', op, outs); bad += 1; continue
    got = outcome(out)
    # an input that was cancelled by the combinator before its own completion ran ends as cancelled: effective outcome
    eff = [outcome(s) for s in spies]
    fold = and_fold if op == 'and' else or_fold
    ok = False
    for perm in itertools.permutations(range(k)):
        # consistent with real-time order: if i returned before j invoked then i before j
        pos = {x: p for p, x in enumerate(perm)}
        if any(ivs[i][1] < ivs[j][0] and pos[i] > pos[j] for i in range(k) for j in range(k) if i != j): continue
        exp = fold(perm, eff)
        if exp[0] == got[0] and (exp[0] == 'C' or exp[1] is got[1] or exp[1] == got[1]): ok = True; break
    n += 1
    if any(ivs[i][0] < ivs[j][1] and ivs[j][0] < ivs[i][1] for i in range(k) for j in range(i)): overlapped += 1
    if not ok: bad += 1; print('MISMATCH', op, outs, eff, got, ivs)
print('cases', n, 'with overlapping completions', overlapped, 'bad', bad)
