import threading, time, sys
from concurrent.futures import Future
import more_executors
from more_executors import *
from mon import Tracer, run_as, tls
tr = Tracer("more_executors")
print("codes", tr.install())

class Manual:
    def __init__(self): self.fs=[]
    def submit(self, fn, *a, **k):
        f = Future(); self.fs.append((f,fn,a,k)); return f
    def shutdown(self, wait=True, **kw): pass

ex = CancelOnShutdownExecutor(Manual())
t = run_as('A', lambda: ex.submit(lambda: 1), record=True); t.start(); t.join()
trace = tr.traces['A']
t0=time.time()
for i in range(len(trace)):
    ex = CancelOnShutdownExecutor(Manual())
    tr.paused.clear(); tr.release.clear()
    res = {}
    def A():
        try: res['A'] = ex.submit(lambda: 1)
        except Exception as e: res['A'] = e
    tr.pause = ('A', i)
    ta = run_as('A', A); ta.start()
    assert tr.paused.wait(2)
    def B():
        ex.shutdown(); res['B']='ok'
    tb = run_as('B', B); tb.start(); tb.join(0.05)
    b_blocked = tb.is_alive()
    tr.release.set()
    ta.join(0.5); tb.join(0.5)
    print(i, trace[i], 'B blocked' if b_blocked else '', 'DEADLOCK' if ta.is_alive() or tb.is_alive() else 'ok', type(res.get('A')).__name__)
print(time.time()-t0, tr.nevents)
