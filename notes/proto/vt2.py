import threading, time, sys, itertools, random
from concurrent.futures import Future
import more_executors
from more_executors import *
import vclock; vclock.install(); C = vclock.CLOCK
import logging; logging.disable(logging.CRITICAL)
LOG = []
class Spy(Future):
    def __init__(self, sid): super().__init__(); self.sid = sid; self.cancels = []
    def cancel(self):
        r = super().cancel(); self.cancels.append((round(C.now, 3), r)); LOG.append(('spy.cancel', self.sid, round(C.now,3), r)); return r
class Manual:
    def __init__(self): self.fs=[]; self.n = itertools.count()
    def submit(self, fn, *a, **k):
        f = Spy(next(self.n)); f.fn = fn; f.a = a; self.fs.append(f); LOG.append(('d.submit', f.sid, round(C.now,3), a)); return f
    def shutdown(self, wait=True, **kw): LOG.append(('d.shutdown', wait, kw))
def mk(factory):
    before = set(threading.enumerate()); d = Manual(); e = factory(d)
    w = set(threading.enumerate()) - before
    return d, e, w
EPS = 0.01
# ---------- A. throttle
print('== throttle')
cnt = {'v': 2, 'raise': False, 'calls': 0}
def count():
    cnt['calls'] += 1
    if cnt['raise']: raise RuntimeError('count broken')
    return cnt['v']
d, e, w = mk(lambda d: ThrottleExecutor(d, count))
t0 = C.now
fs = [e.submit(lambda i=i: i, i) for i in range(6)]
vclock.settle(w)
print('handed', [x[1] for x in LOG if x[0]=='d.submit'], 'at', [round(x[2]-t0,3) for x in LOG if x[0]=='d.submit'])
d.fs[1].set_result('r1'); vclock.settle(w)
print('after completion of #1 handed', [(x[3], round(x[2]-t0,3)) for x in LOG if x[0]=='d.submit'])
cnt['v'] = 4; vclock.settle(w)
n_before = len(d.fs)
fired = vclock.advance(w, C.now + 40)
print('count 2->4: handed before advance', n_before, 'after ≤40s', len(d.fs), [(x[3], round(x[2]-t0,3)) for x in LOG if x[0]=='d.submit'][n_before:])
cnt['raise'] = True
for f in d.fs[:3]:
    if not f.done(): f.set_result('x')
vclock.settle(w)
print('count raising: handed', len(d.fs), 'order', [x[3] for x in LOG if x[0]=='d.submit'])
print('cancel queued?', [f.cancel() for f in fs], [f.done() for f in fs])
e.shutdown(True)
LOG.clear()
# ---------- B. poll
print('== poll')
calls = []
script = {'yield_after': 2}
def poll_fn(ds):
    calls.append((round(C.now,3), threading.current_thread().name, sorted(x.result for x in ds)))
    for x in ds:
        if len([c for c in calls if x.result in c[2]]) >= script['yield_after']:
            x.yield_result(('p', x.result)); x.yield_result(('second', x.result))
    return None
cancels = []
def cancel_fn(r): cancels.append(r); return r != 'veto'
d, e, w = mk(lambda d: PollExecutor(d, poll_fn, cancel_fn, default_interval=5.0))
vclock.settle(w); t0 = C.now
f1 = e.submit(lambda: 1); f2 = e.submit(lambda: 2); f3 = e.submit(lambda: 3)
vclock.settle(w)
d.fs[0].set_result('a'); vclock.settle(w)
print('after a eligible: calls', [(round(c[0]-t0,3), c[2]) for c in calls])
vclock.advance(w, t0 + 4.0)
d.fs[1].set_result('veto'); vclock.settle(w)
print('after veto eligible at +4: calls', [(round(c[0]-t0,3), c[2]) for c in calls])
print('cancel f2 (veto)', f2.cancel(), cancels, 'cancel f3 (delegate pending)', f3.cancel(), cancels)
e.notify(); vclock.settle(w)
print('after notify: calls', [(round(c[0]-t0,3), c[2]) for c in calls], f1)
vclock.advance(w, C.now + 11)
print('later: calls', [(round(c[0]-t0,3), c[2]) for c in calls], f1, f2, f3)
e.shutdown(True); LOG.clear()
# ---------- C. f_timeout
print('== f_timeout')
t0 = C.now
ins = [Spy(i) for i in range(4)]
outs = [f_timeout(ins[0], 5.0), f_timeout(ins[1], 2.0)]
tw = {t for t in threading.enumerate() if t.name.startswith('TimeoutExecutor')}
vclock.advance(tw, t0 + 1.0)
outs.append(f_timeout(ins[2], 0.5))
ins[1].set_result('done-early')
vclock.advance(tw, t0 + 3.0)
outs.append(f_timeout(ins[3], 1.0))
vclock.advance(tw, t0 + 30.0)
print([(f.sid, [(round(c[0]-t0+0,3), c[1]) for c in f.cancels]) for f in ins], outs)
# ---------- D. retry contention
print('== retry')
pol_calls = []
class P(RetryPolicy):
    def should_retry(self, attempt, future): pol_calls.append(('should', attempt)); return attempt < 3
    def sleep_time(self, attempt, future):
        pol_calls.append(('sleep', attempt))
        if attempt == 2 and P.boom: raise RuntimeError('policy broken')
        return 1.5 * attempt
P.boom = False
d, e, w = mk(lambda d: RetryExecutor(d, P()))
vclock.settle(w); t0 = C.now
fs = [e.submit(lambda: None, i) for i in range(3)]
vclock.settle(w)
for rnd in range(4):
    pend = [f for f in d.fs if not f.done()]
    for f in pend: f.set_exception(ValueError(f.a))
    vclock.advance(w, C.now + 20)
print([(x[3], round(x[2]-t0,3)) for x in LOG if x[0]=='d.submit'])
print(pol_calls[:12], fs[0])
