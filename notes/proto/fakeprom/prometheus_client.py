import threading
REG = {}
LOCK = threading.Lock()
class _Child:
    def __init__(self, parent, key):
        self.parent, self.key, self.value, self.min = parent, key, 0, 0
    def inc(self, v=1):
        with LOCK:
            self.value += v
    def dec(self, v=1):
        with LOCK:
            self.value -= v; self.min = min(self.min, self.value)
class _Metric:
    def __init__(self, name, doc, labelnames=(), namespace=''):
        self.name = name; self.labelnames = labelnames; self.children = {}
        REG[name] = self
    def labels(self, **kw):
        assert set(kw) == set(self.labelnames), (self.name, kw)
        key = tuple(sorted(kw.items()))
        with LOCK:
            c = self.children.get(key)
            if c is None: c = self.children[key] = _Child(self, key)
        return c
class Counter(_Metric): pass
class Gauge(_Metric): pass
def dump():
    return {(n, k): (c.value, c.min) for n, m in REG.items() for k, c in m.children.items()}
