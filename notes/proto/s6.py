import sys; sys.path.insert(0, '/tmp/proto/fakeprom')
import time
from concurrent.futures import Future
from more_executors import *
import prometheus_client as pc
class Manual:
    def __init__(self): self.fs=[]
    def submit(self, fn, *a, **k):
        f = Future(); self.fs.append((f,fn,a,k)); return f
    def shutdown(self, wait=True, **kw): pass
d = Manual()
t = ThrottleExecutor(d, 1, name='T')
fs = [t.submit(lambda: 1) for _ in range(3)]
time.sleep(0.3)
print('cancel queued', fs[2].cancel(), fs[1].cancel())
d.fs[0][0].set_result(1)
time.sleep(0.3)
r = RetryExecutor(Manual(), name='R')
f = r.submit(lambda: 1)
time.sleep(0.2)
d2 = r._delegate
d2.fs[0][0].set_exception(ValueError())
time.sleep(0.2)
print('cancel between retries', f.cancel())
time.sleep(0.2)
t.shutdown(); r.shutdown()
for k, v in sorted(pc.dump().items()):
    if 'queue' in k[0] or 'inprogress' in k[0]: print(k, v)
