import threading, time, sys
from concurrent.futures import Future
import more_executors
from more_executors import *
import mon
from mon import TOOL, E, tls
import logging; logging.disable(logging.CRITICAL)
# simple site-based pauser: pause any thread reaching (func, line-text)
import linecache
sites = {}   # (co_name, text) -> (paused_evt, release_evt)
def on_line(code, line):
    txt = linecache.getline(code.co_filename, line).strip()
    s = sites.get((code.co_name, txt))
    if s and not s[0].is_set():
        s[0].set(); s[1].wait(5)
tr = mon.Tracer("more_executors"); tr.install()
sys.monitoring.register_callback(TOOL, E.LINE, on_line)

class Manual:
    def __init__(self): self.fs=[]
    def submit(self, fn, *a, **k):
        f = Future(); f.set_running_or_notify_cancel(); self.fs.append(f); return f
    def shutdown(self, wait=True, **kw): pass
class Pol(RetryPolicy):
    def should_retry(self, attempt, future): return attempt < 3
    def sleep_time(self, attempt, future): return 0.0

def scenario(success, second_site):
    sites.clear()
    d = Manual(); e = RetryExecutor(d, Pol())
    f = e.submit(lambda: 1)
    time.sleep(0.1)
    s1 = sites[('_delegate_callback', 'if should_retry:')] = (threading.Event(), threading.Event())
    s2 = sites[second_site] = (threading.Event(), threading.Event())
    def finish():
        if success: d.fs[0].set_result(7)
        else: d.fs[0].set_exception(ValueError('x'))
    t = threading.Thread(target=finish, daemon=True); t.start()
    assert s1[0].wait(1)
    r1 = f.cancel()
    s1[1].set()
    assert s2[0].wait(1), 'second site not reached'
    try: r2 = f.cancel()
    except BaseException as ex: r2 = repr(ex)
    s2[1].set()
    time.sleep(0.2)
    print(success, second_site, 'cancel1', r1, 'cancel2', r2, 'thread alive', e._submit_thread.is_alive(), f, 'delegate submits', len(d.fs))

for success in (False, True):
    scenario(success, ('_submit_loop', 'executor._pop_job(job)'))
    scenario(success, ('_submit_loop', 'copy_future(job.old_delegate, job.future)'))
