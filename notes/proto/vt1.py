import threading, time
from concurrent.futures import Future
import more_executors
from more_executors import *
import vclock
print('patched', vclock.install())
C = vclock.CLOCK
class Manual:
    def __init__(self): self.log=[]; self.fs=[]
    def submit(self, fn, *a, **k):
        f = Future(); self.fs.append(f); self.log.append(('submit', round(C.now,4))); 
        f.cancel_log = []
        orig = f.cancel
        def cancel(): f.cancel_log.append(round(C.now,4)); return orig()
        f.cancel = cancel
        return f
    def shutdown(self, wait=True, **kw): pass
before = set(threading.enumerate())
d = Manual(); e = RetryExecutor(d, max_attempts=4, sleep=1.0, exponent=3.0, max_sleep=5.0)
workers = set(threading.enumerate()) - before
t0 = C.now
f = e.submit(lambda: 1)
for k in range(4):
    assert vclock.settle(workers)
    print('attempt', k+1, 'submitted at', [round(x[1]-t0,4) for x in d.log])
    d.fs[-1].set_exception(ValueError(k))
    vclock.advance(workers, C.now + 100)
print(f, 'reads', C.reads)
# timeout
before = set(threading.enumerate())
d = Manual(); e = TimeoutExecutor(d, 10.0)
workers = set(threading.enumerate()) - before
t0 = C.now
fa = e.submit(lambda: 1)                 # deadline 10
vclock.advance(workers, t0 + 2)
fb = e.submit_timeout(3.0, lambda: 1)    # deadline 5
fc = e.submit_timeout(1.0, lambda: 1)    # deadline 3
vclock.advance(workers, t0 + 4)
d.fs[1].set_result('b')                  # completes before its deadline
vclock.advance(workers, t0 + 50)
print([ [round(x - t0,4) for x in f.cancel_log] for f in d.fs], fa, fb, fc)
t1 = time.time()
