"""prototype: sys.monitoring LINE tracer with pause points, limited to more_executors/_impl code"""
import sys, threading, types, time, os
mon = sys.monitoring
TOOL = 3
E = mon.events
tls = threading.local()

class Tracer:
    def __init__(self, pkg_prefix):
        self.prefix = pkg_prefix
        self.traces = {}      # role -> list
        self.pause = None     # (role, index)
        self.paused = threading.Event()
        self.release = threading.Event()
        self.nevents = 0
    def install(self):
        mon.use_tool_id(TOOL, "verif")
        mon.register_callback(TOOL, E.LINE, self.on_line)
        n = 0
        for name, mod in list(sys.modules.items()):
            if name.startswith(self.prefix) and mod is not None:
                for code in self._codes(mod):
                    mon.set_local_events(TOOL, code, E.LINE)
                    n += 1
        return n
    def _codes(self, mod):
        seen = set()
        fn = getattr(mod, '__file__', None)
        def walk_code(c):
            if c in seen or c.co_filename != fn: return
            seen.add(c)
            for k in c.co_consts:
                if isinstance(k, types.CodeType): walk_code(k)
        def walk_obj(o, depth=0):
            if isinstance(o, types.FunctionType):
                walk_code(o.__code__)
                if hasattr(o, '__wrapped__'): walk_obj(o.__wrapped__)
            elif isinstance(o, (classmethod, staticmethod)):
                walk_obj(o.__func__)
            elif isinstance(o, property):
                for f in (o.fget, o.fset, o.fdel):
                    if f: walk_obj(f)
            elif isinstance(o, type) and depth < 3:
                for v in vars(o).values(): walk_obj(v, depth+1)
        for v in vars(mod).values(): walk_obj(v)
        return seen
    def on_line(self, code, line):
        role = getattr(tls, 'role', None)
        if role is None: return
        self.nevents += 1
        n = tls.n; tls.n = n + 1
        if getattr(tls, 'record', False):
            self.traces.setdefault(role, []).append((code.co_filename.rsplit('/',1)[-1], code.co_name, line))
        p = self.pause
        if p is not None and p[0] == role and p[1] == n:
            self.pause = None
            self.paused.set()
            self.release.wait(10)

def run_as(role, fn, record=False):
    def target():
        tls.role = role; tls.n = 0; tls.record = record
        fn()
    t = threading.Thread(target=target, daemon=True)
    return t
