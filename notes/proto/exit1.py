import sys, time, threading
from more_executors import *
mode = sys.argv[1]
tp = Executors.thread_pool(max_workers=2)
if mode == 'idle':
    es = [tp.with_retry(), tp.with_throttle(2), tp.with_poll(lambda ds: None), tp.with_timeout(5)]
elif mode == 'retry_sleeping':
    e = tp.with_retry(max_attempts=100, sleep=0.05)
    def bad(): raise ValueError()
    fs = [e.submit(bad) for _ in range(20)]
    time.sleep(0.2)
elif mode == 'busy':
    e = tp.with_map(lambda x: x).with_retry(max_attempts=1000, sleep=0).with_throttle(3).with_poll(lambda ds: [d.yield_result(d.result) for d in ds] and 0.001).with_timeout(60)
    def bad(i):
        if i % 3: raise ValueError()
        return i
    fs = [e.submit(bad, i) for i in range(2000)]
    time.sleep(float(sys.argv[2]))
elif mode == 'polling':
    e = tp.with_poll(lambda ds: 0.001)
    fs = [e.submit(lambda: 1) for _ in range(50)]
    time.sleep(0.1)
print('main done', flush=True)
