from more_executors import *
calls = []
def efn(e):
    calls.append(('efn', repr(e))); return f_return('handled')
def efn2(e):
    calls.append(('efn2', repr(e))); return f_return_error(KeyError('second'))
o = f_flat_map(f_return(1), fn=lambda x: f_return_error(ValueError('inner')), error_fn=efn)
print('case1', o, o.exception() if not o.cancelled() else None, o.result() if not o.exception() else None, calls)
calls.clear()
o = f_flat_map(f_return_error(ValueError('input')), fn=lambda x: f_return(x), error_fn=efn2)
print('case2', o, repr(o.exception()), calls)
calls.clear()
ex = Executors.sync().with_flat_map(lambda x: f_return_error(ValueError('inner')), error_fn=efn)
o = ex.submit(lambda: 1)
print('case3', o, repr(o.exception()), calls)
