import time, sys, random, threading
from more_executors import *
def run():
    ex = Executors.thread_pool(max_workers=4).with_map(lambda x: x).with_retry(max_attempts=2, sleep=0).with_throttle(8).with_poll(lambda ds: [d.yield_result(d.result) for d in ds] and 0.0005).with_timeout(60)
    t=time.time(); fs=[ex.submit(lambda x: x*2, i) for i in range(1000)]; r=[f.result(30) for f in fs]; dt=time.time()-t
    ex.shutdown(True); return dt
print('plain', run())
import mon
tr = mon.Tracer('more_executors'); tr.install()
cnt=[0]
def on_line(code, line): cnt[0]+=1
sys.monitoring.register_callback(mon.TOOL, mon.E.LINE, on_line)
print('LINE counting', run(), cnt[0])
rng = random.Random(1)
def on_line2(code, line):
    cnt[0]+=1
    if rng.random() < 0.02: time.sleep(0)
sys.monitoring.register_callback(mon.TOOL, mon.E.LINE, on_line2)
cnt[0]=0
print('LINE yield p=.02', run(), cnt[0])
