import threading, time, sys
from concurrent.futures import Future, wait, CancelledError
from more_executors import *
from more_executors import Executors

def t(name, fn, timeout=3):
    res = {}
    def run():
        try:
            res['v'] = fn()
        except BaseException as e:
            res['e'] = e
    th = threading.Thread(target=run, daemon=True); th.start(); th.join(timeout)
    print(name, 'HANG' if th.is_alive() else res)

# S2 nested sync submit
ex = Executors.sync()
t('S2 sync nested', lambda: ex.submit(lambda: ex.submit(lambda: 1).result()).result())
ex2 = Executors.sync()
m = ex2.with_map(lambda x: x)
t('S2 map(sync) nested', lambda: m.submit(lambda: m.submit(lambda: 1).result()).result())

# S3 externally cancelled delegate
class Manual:
    def __init__(self): self.fs=[]
    def submit(self, fn, *a, **k):
        f = Future(); self.fs.append((f,fn,a,k)); return f
    def shutdown(self, wait=True, **kw): pass
for nm, mk in [('map', lambda d: MapExecutor(d, lambda x:x)), ('retry', lambda d: RetryExecutor(d)), ('poll', lambda d: PollExecutor(d, lambda ds: [x.yield_result(1) for x in ds])), ('timeout', lambda d: TimeoutExecutor(d, 100)), ('throttle', lambda d: ThrottleExecutor(d, 2)), ('flat_map', lambda d: FlatMapExecutor(d, lambda x: f_return(x)))]:
    d = Manual(); e = mk(d); f = e.submit(lambda: 1)
    time.sleep(0.2)
    inner = d.fs[0][0]
    inner.cancel(); inner.set_running_or_notify_cancel()
    time.sleep(0.2)
    print('S3', nm, 'done' if f.done() else 'PENDING', f)
for nm, mk in [('f_map', lambda f: f_map(f, lambda x:x)), ('f_zip', lambda f: f_zip(f, f_return(1))), ('f_and', lambda f: f_and(f, f_return(1))),('f_or', lambda f: f_or(f, f_return(0))),('f_nocancel', f_nocancel), ('f_proxy', f_proxy), ('f_timeout', lambda f: f_timeout(f, 100)), ('f_apply', lambda f: f_apply(f_return(lambda x:x), f)), ('f_sequence', lambda f: f_sequence([f])), ('f_flat_map', lambda f: f_flat_map(f, f_return))]:
    i = Future(); o = mk(i); i.cancel(); time.sleep(0.05)
    print('S3', nm, 'done' if o.done() else 'PENDING', o)
# flat_map inner future cancelled
i = Future(); inner = Future(); o = f_flat_map(i, lambda x: inner); i.set_result(1); inner.cancel(); print('S3 f_flat_map inner cancelled', 'done' if o.done() else 'PENDING', o)

# S4
d = Manual(); e = ThrottleExecutor(d, None, block=True)
t('S4 throttle None block', lambda: e.submit(lambda: 1))
# S7
i = Future(); o = f_zip(i, f_return(1)); i.cancel()
t('S7 wait on cancelled zip', lambda: wait([o], timeout=1))
i = Future(); o = f_zip(i, f_return(1)); o.cancel()
t('S7 wait on user-cancelled zip', lambda: wait([o], timeout=1))
i = Future(); o = f_map(i, lambda x:x); o.cancel()
t('S7 wait on user-cancelled map', lambda: wait([o], timeout=1))
# S8
a = f_map(f_return(1), lambda x: x)
t('S8 f_and dup', lambda: f_and(a, a, f_return(2)).result())
a = Future(); 
def s8():
    o = f_and(a, a, f_return(2)); a.set_result(5); return o.result(1)
t('S8 f_and dup pending plain', s8)
