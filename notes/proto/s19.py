import threading
from more_executors import *
def names(): return sorted(t.name for t in threading.enumerate() if 'Executor' in t.name)
e = Executors.thread_pool(name='x1').with_retry().with_throttle(2).with_timeout(5).with_poll(lambda ds: None)
print(names())
b = Executors.thread_pool(name='x2').bind(lambda: 1).with_retry().with_throttle(2)
print([n for n in names() if 'x1' not in n])
b2 = Executors.sync(name='x3').with_map(lambda x: x).bind(lambda: 1).with_retry()
print([n for n in names() if 'x1' not in n])
b3 = Executors.sync(name='x4').flat_bind(lambda: f_return(1)).with_retry()
print([n for n in names() if 'x1' not in n])
f = b(); print(f.result(), [t.name for t in threading.enumerate() if 'x2' in t.name])
e2 = Executors.sync(name='x5').with_retry(name='y5').with_throttle(1)
print([n for n in names() if '5' in n])
