"""prototype virtual clock: VirtualEvent + monotonic; harness-driven advance at quiescence"""
import threading, time, sys, heapq, itertools

class VClock:
    TICK = 1e-6
    def __init__(self):
        self.mu = threading.Condition(threading.Lock())
        self.now = 1000.0
        self.reads = 0
        self.waiters = {}     # id -> waiter record
        self.running = 0      # tracked threads currently NOT parked
        self.tracked = set()  # thread idents that have parked at least once
        self.ids = itertools.count()
        self.events = []
    def monotonic(self):
        with self.mu:
            self.reads += 1
            self.now += self.TICK
            return self.now

class Waiter:
    __slots__ = ('event', 'deadline', 'woken', 'timed_out', 'thread')

class VEvent:
    def __init__(self):
        self._flag = False
        self.clock = CLOCK
    def is_set(self): return self._flag
    isSet = is_set
    def set(self):
        c = self.clock
        with c.mu:
            self._flag = True
            for w in list(c.waiters.values()):
                if w.event is self and not w.woken:
                    w.woken = True
            c.mu.notify_all()
    def clear(self):
        with self.clock.mu:
            self._flag = False
    def wait(self, timeout=None):
        c = self.clock
        with c.mu:
            if self._flag: return True
            w = Waiter(); w.event = self; w.woken = False; w.timed_out = False
            w.thread = threading.current_thread()
            w.deadline = None if timeout is None else c.now + max(timeout, 0)
            wid = next(c.ids); c.waiters[wid] = w
            c.mu.notify_all()
            while not w.woken:
                c.mu.wait()
            del c.waiters[wid]
            c.mu.notify_all()
            return not w.timed_out

CLOCK = VClock()

def parked_threads():
    return {w.thread for w in CLOCK.waiters.values() if not w.woken}

def settle(threads, real_timeout=5.0):
    """wait until every thread in `threads` that is alive is parked (unwoken waiter)"""
    c = CLOCK; end = time.monotonic() + real_timeout
    with c.mu:
        while True:
            parked = {w.thread for w in c.waiters.values() if not w.woken}
            if all((t in parked) or (not t.is_alive()) for t in threads):
                return True
            rem = end - time.monotonic()
            if rem <= 0: return False
            c.mu.wait(min(rem, 0.05))

def advance(threads, horizon):
    """advance virtual time firing timers in order until `horizon`; settle between firings"""
    c = CLOCK
    fired = 0
    while True:
        assert settle(threads), 'not quiescent'
        with c.mu:
            cands = [w for w in c.waiters.values() if not w.woken and w.deadline is not None and w.deadline <= horizon]
            if not cands:
                c.now = max(c.now, horizon); return fired
            w = min(cands, key=lambda w: w.deadline)
            c.now = max(c.now, w.deadline)
            w.woken = True; w.timed_out = True; fired += 1
            c.mu.notify_all()

def install():
    import time as _t, threading as _th
    n = 0
    for name, mod in list(sys.modules.items()):
        if name.startswith('more_executors') and mod is not None:
            for k, v in list(vars(mod).items()):
                if v is _t.monotonic: setattr(mod, k, CLOCK.monotonic); n += 1
                elif v is _th.Event: setattr(mod, k, VEvent); n += 1
    return n
