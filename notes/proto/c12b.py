import threading, time, sys, gc, weakref
from concurrent.futures import Future
import more_executors
from more_executors import *
import vclock; vclock.install(); C = vclock.CLOCK
import mon
from mon import TOOL, E, tls
import logging; logging.disable(logging.CRITICAL)
tr = mon.Tracer("more_executors"); tr.install()
state = {'pause': None, 'trace': None}
paused = threading.Event(); release = threading.Event()
def on_line(code, line):
    n = threading.current_thread().name
    if not n.startswith(('RetryExecutor','ThrottleExecutor','PollExecutor','TimeoutExecutor')): return
    k = getattr(tls, 'k', 0); tls.k = k + 1
    if state['trace'] is not None: state['trace'].append((code.co_name, line))
    if state['pause'] == k:
        state['pause'] = None; paused.set(); release.wait(10)
sys.monitoring.register_callback(TOOL, E.LINE, on_line)
class AutoManual:
    """delegate that completes each submission from a helper thread shortly after, then forgets it"""
    def __init__(self): self.n = 0; self.q = []; self.cv = threading.Condition(); self.stop = False
    def submit(self, fn, *a, **k):
        f = Future()
        with self.cv: self.q.append(f); self.n += 1; self.cv.notify_all()
        return f
    def pump(self):
        with self.cv:
            fs, self.q = self.q, []
        for f in fs:
            f.set_result(1)
        return len(fs)
    def shutdown(self, wait=True, **kw): pass
MK = {
 'retry': lambda d: RetryExecutor(d, max_attempts=2, sleep=1.0),
 'throttle': lambda d: ThrottleExecutor(d, 1),
 'poll': lambda d: PollExecutor(d, lambda ds: [x.yield_result(x.result) for x in ds], default_interval=5.0),
 'timeout': lambda d: TimeoutExecutor(d, 10.0),
}
def run(kind, pause_at):
    before = set(threading.enumerate()); paused.clear(); release.clear()
    state['pause'] = pause_at
    state['trace'] = [] if pause_at is None else None
    d = AutoManual(); e = MK[kind](d)
    w = (set(threading.enumerate()) - before).pop()
    wr = weakref.ref(e)
    f = e.submit(lambda: 1)
    done = threading.Event(); f.add_done_callback(lambda _f: done.set())
    del f
    dropped = False
    t_end = time.time() + 5
    # drive: pump the delegate until the future is done; drop executor when victim is paused (or at end)
    while time.time() < t_end:
        d.pump()
        if pause_at is not None and paused.is_set() and not dropped:
            del e; gc.collect(); dropped = True; release.set()
        if done.is_set() and (pause_at is None or dropped or not paused.is_set()):
            if pause_at is None or dropped: break
            # future done but placement not reached yet: keep waiting a little for the placement
            if not paused.wait(0.2): break
        time.sleep(0.001)
    missed = pause_at is not None and not dropped
    if not dropped:
        del e
    state['pause'] = None; release.set()
    gc.collect()
    t_end = time.time() + 3
    while w.is_alive() and time.time() < t_end:
        d.pump()
        try: vclock.advance({w}, C.now + 100)
        except AssertionError: pass
        w.join(0.02); gc.collect()
    return (not w.is_alive()), wr() is None, missed, done.is_set()
for kind in MK:
    ok, freed, _, done = run(kind, None)
    trace = state['trace']; n0 = len(trace); state['trace'] = None
    print(kind, 'dry: exited', ok, 'freed', freed, 'future done', done, 'trace', n0)
    leaks = missed = 0
    t0 = time.time()
    for i in range(n0):
        ok, freed, m, done = run(kind, i)
        missed += m
        if not ok:
            leaks += 1; print('  LEAK', kind, i, trace[i], 'freed', freed, 'future done', done)
    print(kind, 'placements', n0, 'missed', missed, 'leaks', leaks, 'secs', round(time.time()-t0,1))
