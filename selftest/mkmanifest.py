#!/usr/bin/env python3
"""Regenerate MANIFEST.json from the checks that exist (vf/props/cNN.py) and the table below."""
import json, os, re
ROOT = os.path.dirname(os.path.dirname(os.path.abspath(__file__)))
props = [json.loads(l) for l in open(os.path.join(ROOT, "properties.jsonl"))]
have = sorted(f[:-3].upper() for f in os.listdir(os.path.join(ROOT, "vf", "props")) if re.match(r"c\d\d\.py$", f))
TECH = {
 "C01": "runtime monitoring: generated stacks under seeded yield injection, invocation log vs sequential reference model",
 "C02": "runtime monitoring: future-protocol automaton per future under placement sweeps and schedule fuzzing",
 "C03": "runtime monitoring: quiescent-point invariant in virtual time (work terminal => future done) under placement sweeps",
 "C04": "runtime monitoring: lock monitor (wait-for graph) + quiescence detector under one-preemption placement sweeps and fuzzing",
 "C05": "runtime monitoring: invocation history in virtual time vs retry reference model",
 "C06": "runtime monitoring: ordering oracle (no start/hand-over after cancel returned) under depth-1/2 placement sweeps",
 "C07": "runtime monitoring: online conservation/FIFO/idle-capacity model at the delegate boundary in virtual time",
 "C08": "runtime monitoring: poll-call interval model over the boundary log in virtual time",
 "C09": "runtime monitoring: cancel timestamps vs deadlines in virtual time",
 "C10": "runtime monitoring: exactly-once cancel log at spy futures under submit/shutdown placement sweeps",
 "C11": "runtime monitoring: post-conditions at shutdown return over recording executors, thread liveness",
 "C12": "runtime monitoring: thread/weakref liveness at quiescent points, child-process exit monitor",
 "C13": "runtime monitoring: differential check against map/flat_map reference model",
 "C14": "runtime monitoring: completion-order fold model with linearisation search over recorded intervals",
 "C15": "runtime monitoring: position/first-failure model with linearisation search over recorded intervals",
 "C16": "runtime monitoring: apply reference model over recorded calls",
 "C17": "runtime monitoring: differential operator table proxy vs plain value",
 "C18": "runtime monitoring: fault injection at user-code sites + isolation/probe oracle",
 "C19": "runtime monitoring: paired-program differential (bind form vs submit form), thread-name observation",
 "C20": "runtime monitoring: conservation of gauges/counters against a stand-in prometheus registry at quiescent points",
}
checks = []
for p in props:
    pid = p["id"]
    if pid not in have:
        continue
    checks.append({
        "property_id": pid,
        "quick_cmd": "./check %s --tier quick" % pid,
        "thorough_cmd": "./check %s --tier thorough" % pid,
        "evidence_file": "/verif/evidence/%s.json" % pid,
        "replay_cmd_template": "./check %s --replay {path}" % pid,
        "engine": "vf",
        "level_claimed": {"category": "exploration",
                          "text": "The property held on every execution the drivers produced (placement sweeps over statement boundaries of library code, seeded schedule fuzzing, generated configurations) as judged by a deterministic oracle over the recorded boundary history; no claim beyond those executions.",
                          "design_ref": "DESIGN.md section 5 (%s)" % pid},
        "level_note": "Trusted: CPython 3.12 sys.monitoring LINE events, the harness (virtual clock, traced locks, manual delegate executor), the reference models written from the property text. Schedules needing more than the explored preemptions are reached only by fuzzing.",
        "technique": TECH[pid],
    })
na = [{"property_id": p["id"], "reason": "check not built yet in this revision of the framework (runtime monitoring applies; see DESIGN.md section 5)"}
      for p in props if p["id"] not in have]
m = {
 "version": 1,
 "setup_cmd": "/venv/bin/python -B -c \"import sys; sys.path.insert(0,'/verif'); import vf.cli, vf.instr, vf.harness, vf.stacks\"",
 "hooks": {"guard": "MORE_EXECUTORS_VERIF",
           "enable": "no source hooks: instrumentation is substituted from outside by the check process (vf/instr.py); the variable is only exported by ./check",
           "baseline_off_cmd": "cd /repo && /venv/bin/python -m pytest -ra -q -p no:cacheprovider --timeout=900 --continue-on-collection-errors",
           "source_commits": [], "add_only": True},
 "engines": [{"name": "vf", "path": "/verif/vf", "serves_properties": have,
              "kind_free_text": "runtime monitoring harness: sys.monitoring LINE tracer with pause points and yield injection, traced locks with wait-for graph, virtual clock, boundary recorders, reference-model oracles"}],
 "checks": checks,
 "not_applicable": na,
 "notes": "Genuine defects found are repaired in /repo as 'fix:' commits and listed in /verif/known_findings.json; seeded mutants and which checks catch them: /verif/seeded, /verif/selftest/matrix.json.",
}
json.dump(m, open(os.path.join(ROOT, "MANIFEST.json"), "w"), indent=1)
print("claimed:", have)
