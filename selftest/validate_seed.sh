#!/bin/sh
# usage: selftest/validate_seed.sh <src dir with patch.diff demo.py meta.json> <seed id>
# Confirms in a scratch worktree of the pinned commit: patch applies, demo fails with it,
# the repository's suite passes with it, demo passes without it. Writes /verif/seeded/<id>/.
src="$1"; id="$2"; PIN="${3:-d63160f}"
wt=/tmp/vseed-$id
dst=/verif/seeded/$id
rm -rf "$wt"; git -C /repo worktree add -q --detach "$wt" $PIN || exit 9
mkdir -p "$dst"
cd "$wt" || exit 9
res_apply=ok; git apply "$src/patch.diff" || res_apply=FAIL
timeout 300 /venv/bin/python "$src/demo.py" > "$dst/demo_on_mutant.log" 2>&1; d_mut=$?
suite=$(timeout 1500 /venv/bin/python -m pytest -q -p no:cacheprovider -n 6 --timeout=900 --deselect tests/types 2>&1 | tail -1)
git checkout -- .
timeout 300 /venv/bin/python "$src/demo.py" > "$dst/demo_on_pinned.log" 2>&1; d_pin=$?
cd /; git -C /repo worktree remove --force "$wt"
if [ "$PIN" = d63160f ]; then cp "$src/patch.diff" "$dst/patch.pinned.diff"; else cp "$src/patch.diff" "$dst/patch.diff"; fi; cp "$src/demo.py" "$dst/demo.py"; cp "$src/meta.json" "$dst/agent_meta.json" 2>/dev/null
tail -3 "$dst/demo_on_mutant.log" > "$dst/demo_on_mutant.tail"; rm -f "$dst/demo_on_mutant.log" "$dst/demo_on_pinned.log"
echo "{\"id\": \"$id\", \"base\": \"$PIN\", \"apply_on_base\": \"$res_apply\", \"demo_exit_on_mutant\": $d_mut, \"demo_exit_on_pinned\": $d_pin, \"suite_on_mutant\": \"$suite\"}" > "$dst/validation.json"
cat "$dst/validation.json"
