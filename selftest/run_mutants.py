#!/usr/bin/env python3
"""Run selftest/mutants/*.patch: apply each in a scratch worktree of /repo's HEAD, optionally run the
repository's suite there, run the target checks against it (VERIF_REPO), record selftest/mutants.json.
usage: selftest/run_mutants.py [--suite] [--tier quick] [names...]"""
import os, sys, json, subprocess, re, time, argparse
ROOT = os.path.dirname(os.path.dirname(os.path.abspath(__file__)))
MD = os.path.join(ROOT, "selftest", "mutants")


def sh(cmd, cwd=None, timeout=7200):
    p = subprocess.run(cmd, shell=True, cwd=cwd, capture_output=True, text=True, timeout=timeout)
    return p.returncode, p.stdout + p.stderr


def main():
    ap = argparse.ArgumentParser()
    ap.add_argument("--suite", action="store_true")
    ap.add_argument("--tier", default="quick")
    ap.add_argument("names", nargs="*")
    a = ap.parse_args()
    index = json.load(open(os.path.join(MD, "index.json")))
    rpath = os.path.join(ROOT, "selftest", "mutants.json")
    results = json.load(open(rpath)) if os.path.exists(rpath) else {}
    for name in (a.names or sorted(index)):
        info = index[name]
        wt = "/tmp/mut-%s-%d" % (name, os.getpid())
        sh("git worktree remove --force %s" % wt, "/repo")
        rc, out = sh("git worktree add -q --detach %s HEAD" % wt, "/repo")
        try:
            rc, out = sh("git apply %s" % os.path.join(MD, name + ".patch"), wt)
            if rc != 0:
                print("%s: does not apply" % name)
                continue
            r = results.setdefault(name, {"targets": info["targets"], "note": info["note"]})
            if a.suite:
                rc, out = sh("/venv/bin/python -m pytest -q -p no:cacheprovider -x -n 6 --timeout=900 --deselect tests/types 2>&1 | tail -1", wt)
                r["suite"] = out.strip()
            for prop in info["targets"]:
                t0 = time.time()
                rc, out = sh("VERIF_REPO=%s ./check %s --no-evidence --tier %s" % (wt, prop, a.tier), ROOT)
                mechs = re.findall(r"^\s+mechanism: (.*)$", out, re.M)
                status = {0: "HELD", 1: "VIOLATED"}.get(rc, "INCONCLUSIVE(rc=%d)" % rc)
                r.setdefault("checks", {})[prop + "/" + a.tier] = {"status": status, "mechanisms": mechs[:6], "wall_s": round(time.time() - t0, 1)}
                print("%-40s %s -> %s %s%s" % (name, prop, status, mechs[:3], (" suite: " + r.get("suite", "")) if a.suite else ""))
            json.dump(results, open(rpath, "w"), indent=1, sort_keys=True)
        finally:
            sh("git worktree remove --force %s" % wt, "/repo")


if __name__ == "__main__":
    main()
