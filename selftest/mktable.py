#!/usr/bin/env python3
"""Print the markdown tables of DESIGN.md section 17 from selftest/matrix.json and selftest/mutants.json."""
import json, os
ROOT = os.path.dirname(os.path.dirname(os.path.abspath(__file__)))
mx = json.load(open(os.path.join(ROOT, "selftest", "matrix.json")))
print("| seed | files | own check (quick) | mechanisms reported |")
print("|---|---|---|---|")
for sid in sorted(mx):
    d = os.path.join(ROOT, "seeded", sid)
    files = ""
    try:
        files = ", ".join(os.path.basename(f) for f in (json.load(open(os.path.join(d, "agent_meta.json"))).get("files") or []))
    except Exception:
        pass
    own = sid.split("-")[0]
    c = (mx[sid].get("checks") or {}).get(own + "/quick")
    if not c:
        continue
    note = ""
    if os.path.exists(os.path.join(d, "NOTE.md")):
        note = " (see NOTE.md)"
    print("| %s | %s | %s%s | %s |" % (sid, files, c["status"], note, ", ".join(c["mechanisms"][:3])))
mp = os.path.join(ROOT, "selftest", "mutants.json")
if os.path.exists(mp):
    mu = json.load(open(mp))
    print()
    print("| own mutant | what | repository's suite with it | checks |")
    print("|---|---|---|---|")
    for name in sorted(mu):
        r = mu[name]
        cs = "; ".join("%s %s" % (k.split("/")[0], v["status"]) for k, v in sorted((r.get("checks") or {}).items()) if k.split("/")[0] in r["targets"])
        print("| %s | %s | %s | %s |" % (name, r.get("note", ""), (r.get("suite") or "").split(" in ")[0], cs))
