#!/bin/sh
# usage: selftest/seedsweep.sh <tier> <seed...>   - runs every claimed check per seed, prints non-HELD results
tier="$1"; shift
cd "$(dirname "$0")/.." || exit 2
for sd in "$@"; do
  for p in $(python3 -c "import json;print(' '.join(c['property_id'] for c in json.load(open('MANIFEST.json'))['checks']))"); do
    out=$(VERIF_SEED=$sd PYTHONHASHSEED=0 ./check $p --tier $tier --no-evidence 2>&1)
    rc=$?
    line=$(echo "$out" | grep -E "HELD|VIOLATED|INCONCLUSIVE" | head -1)
    if [ $rc -ne 0 ]; then echo "seed=$sd rc=$rc $line"; echo "$out" | grep -E "mechanism|what:|INCONCLUSIVE " | head -6; else echo "seed=$sd ok $p $(echo "$line" | sed 's/.*: //')"; fi
  done
done
