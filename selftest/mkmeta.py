#!/usr/bin/env python3
"""Write seeded/<id>/meta.json from the agent's notes, our own validation run and the check matrix."""
import os, json
ROOT = os.path.dirname(os.path.dirname(os.path.abspath(__file__)))
mx = json.load(open(os.path.join(ROOT, "selftest", "matrix.json"))) if os.path.exists(os.path.join(ROOT, "selftest", "matrix.json")) else {}
for sid in sorted(os.listdir(os.path.join(ROOT, "seeded"))):
    d = os.path.join(ROOT, "seeded", sid)
    am = {}
    if os.path.exists(os.path.join(d, "agent_meta.json")):
        try:
            am = json.load(open(os.path.join(d, "agent_meta.json")))
        except Exception:
            pass
    val = json.load(open(os.path.join(d, "validation.json"))) if os.path.exists(os.path.join(d, "validation.json")) else {}
    checks = (mx.get(sid) or {}).get("checks", {})
    meta = {
        "id": sid,
        "property": sid.split("-")[0],
        "breaks_clause": am.get("clause"),
        "needs_to_manifest": am.get("needs"),
        "files": am.get("files"),
        "written_by": "independent sub-agent given only the property text and a scratch worktree",
        "confirmed_here": {
            "how": "selftest/validate_seed.sh in a scratch worktree of commit %s: git apply, run demo.py (must fail), run the repository's suite with -n 6 (must pass), revert, run demo.py (must pass)" % val.get("base", "d63160f"),
            "patch_applies": val.get("apply_on_pinned", val.get("apply_on_base")),
            "demo_exit_with_change": val.get("demo_exit_on_mutant"),
            "demo_exit_without_change": val.get("demo_exit_on_pinned"),
            "suite_with_change": val.get("suite_on_mutant"),
        },
        "patch_for_current_tree": "patch.diff" if os.path.exists(os.path.join(d, "patch.diff")) else "patch.pinned.diff (applies unchanged)",
        "checks_run_against_it": {k: {"status": v["status"], "mechanisms": v["mechanisms"][:4]} for k, v in checks.items()},
        "caught_by": sorted(k for k, v in checks.items() if v["status"] == "VIOLATED"),
    }
    json.dump(meta, open(os.path.join(d, "meta.json"), "w"), indent=1)
print("meta written")
