#!/bin/sh
# usage: selftest/tryseed.sh <patch.diff> <Cnn> [more check args]
# applies the patch to /repo, runs the check (no evidence written), reverts /repo.
patch="$(realpath "$1")"; shift
cd /repo || exit 9
if [ -n "$(git status --porcelain --untracked-files=no)" ]; then echo "/repo not clean"; exit 9; fi
if ! git apply "$patch" 2>/dev/null; then
  if ! git apply --3way "$patch" 2>/dev/null; then echo "PATCH-DOES-NOT-APPLY $patch"; git checkout -- . ; git reset -q; exit 8; fi
  git reset -q
fi
cd /verif
for p in "$@"; do
  case "$p" in C[0-9][0-9]) ./check "$p" --no-evidence ${TIER:+--tier $TIER} | grep -E "HELD|VIOLATED|INCONCLUSIVE|VIOLATION|mechanism|what:|KNOWN" ;; esac
done
cd /repo && git checkout -- . && git status --porcelain --untracked-files=no
