#!/usr/bin/env python3
"""Generate selftest/mutants/*.patch: small deliberate breaks of the library (DESIGN.md section 8),
each tagged with the check(s) expected to catch it.  Patches are created against /repo's HEAD in a
scratch worktree; nothing is written to /repo."""
import os, subprocess, sys, json

ROOT = os.path.dirname(os.path.dirname(os.path.abspath(__file__)))
OUT = os.path.join(ROOT, "selftest", "mutants")
WT = "/tmp/mkmut-%d" % os.getpid()

M = []


def mut(name, targets, path, old, new, note=""):
    M.append((name, targets, "more_executors/_impl/" + path, old, new, note))


mut("retry-no-wake-after-requeue", ["C05", "C03"], "retry.py",
    "            new_job.stop_retry = job.stop_retry\n            self._append_job(new_job)\n\n        self._wake_thread()\n",
    "            new_job.stop_retry = job.stop_retry\n            self._append_job(new_job)\n",
    "missing wake-up after a job is re-queued for retry")
mut("poll-no-wake-on-register", ["C08", "C03"], "poll.py",
    "            future._clear_delegate()\n            self._poll_event.set()\n",
    "            future._clear_delegate()\n",
    "newly eligible future does not wake the poll thread")
mut("throttle-no-wake-on-done", ["C07", "C03"], "throttle.py",
    "        running_count.decr()\n        event.set()\n",
    "        running_count.decr()\n",
    "completion does not wake the hand-over thread")
mut("timeout-no-wake-on-submit", ["C09"], "timeout.py",
    "                self._jobs.append(job)\n            self._jobs_write.set()\n",
    "                self._jobs.append(job)\n",
    "submit does not wake the timeout thread")
mut("timeout-early", ["C09"], "timeout.py",
    "            elif job.deadline < now:\n", "            elif job.deadline - 0.5 < now:\n", "cancels half a second early")
mut("cancel-no-notify", ["C02"], "common.py",
    "            out = super(_Future, self).cancel()\n            if out:\n                self.set_running_or_notify_cancel()\n        if out:\n            self._me_invoke_callbacks()\n        return out\n\n    def _me_delegate_cancelled",
    "            out = super(_Future, self).cancel()\n        if out:\n            self._me_invoke_callbacks()\n        return out\n\n    def _me_delegate_cancelled",
    "cancelled futures never notify wait()/as_completed()")
mut("retry-handover-no-done-check", ["C06"], "retry.py",
    "                if job.future.done():\n                    self._log.debug(\n                        \"future done %s - not submitting to delegate\", job.future\n                    )\n                    return\n",
    "", "hand-over does not re-check done()")
mut("throttle-count-after-handover", ["C07"], "throttle.py",
    "            # While not actually running yet, we've committed to running it, so...\n            executor._running_count.incr()\n",
    "",
    "in-flight counter not incremented before hand-over (over-admission)")
mut("retry-shutdown-no-join", ["C11"], "retry.py",
    "                self._submit_thread.join(MAX_TIMEOUT)\n", "                pass\n", "shutdown(wait=True) does not join the submit thread")
mut("gate-ignores-flag", ["C11"], "helpers.py",
    "            if self.is_shutdown:\n                raise RuntimeError(\"cannot schedule new futures after shutdown\")\n            yield\n",
    "            yield\n", "submit after shutdown accepted")
mut("retry-strong-self-ref", ["C12"], "retry.py",
    "        self_ref = weakref.ref(self, lambda _: event.set())\n        self._submit_thread = Thread(",
    "        self_ref = lambda: self\n        self._submit_thread = Thread(", "thread holds a strong reference to its executor")
mut("zip-index-off-by-one", ["C15"], "futures/zip.py",
    "                self.fs[index] = f.result()\n", "                self.fs[index - 1] = f.result()\n", "results stored one slot off")
mut("apply-kwargs-misaligned", ["C16"], "futures/apply.py",
    "        kwargs = dict(zip(keys, values[1 + nargs :]))\n", "        kwargs = dict(zip(keys, values[nargs:]))\n",
    "keyword arguments shifted by one slot")
mut("backoff-exponent-off-by-one", ["C05"], "retry.py",
    "        return min(self._sleep * (self._exponent ** (attempt - 1)), self._max_sleep)\n",
    "        return min(self._sleep * (self._exponent ** attempt), self._max_sleep)\n", "back-off exponent off by one")
mut("map-loses-exception-identity", ["C13", "C01"], "map.py",
    "        if self._error_fn is None:\n            copy_future_exception(delegate, self)\n            return\n",
    "        if self._error_fn is None:\n            ex = delegate.exception()\n            copy_exception(self, type(ex)(*ex.args))\n            return\n",
    "propagated exception is a copy, not the raised object")
mut("or-does-not-cancel-losers", ["C14"], "futures/bool.py",
    "            self.done = True\n            cancel_futures = list(self.fs.keys())\n            if f.cancelled():\n                # Cancelled => output is cancelled\n                cancel_futures.append(self.out)",
    "            self.done = True\n            cancel_futures = []\n            if f.cancelled():\n                # Cancelled => output is cancelled\n                cancel_futures.append(self.out)",
    "f_or leaves losing inputs running")
mut("map-shutdown-no-gauge-dec", ["C20"], "map.py",
    "        if self._shutdown():\n            self._metric_exec_inprogress.dec()\n", "        if self._shutdown():\n", "exec_inprogress never decremented")
mut("poll-cancel-fn-exception-allows-cancel", ["C08"], "poll.py",
    "                \"Exception during cancel on %s/%s\", future, descriptor.result\n            )\n            return False\n",
    "                \"Exception during cancel on %s/%s\", future, descriptor.result\n            )\n            return True\n",
    "a raising cancel function no longer vetoes")
mut("try-set-result-not-tolerant", ["C18", "C02"], "common.py",
    "    try:\n        future.set_result(result)\n    except InvalidStateError:\n        LOG.debug(\"%s: can't set result %s\", future, result, exc_info=True)\n",
    "    future.set_result(result)\n", "lost race with cancel raises InvalidStateError into the caller")
mut("proxy-getitem-through-list", ["C17"], "futures/proxy.py",
    "        return self.__result[key]\n", "        return list(self.__result)[key]\n", "item access converts the result to a list first")
mut("cos-forget-on-done-missing", ["C12"], "cancel_on_shutdown.py",
    "                future.add_done_callback(self._futures.discard)\n", "", "done futures are kept in the tracked set forever")
mut("bind-loses-args", ["C19"], "bind.py",
    "        return self.__executor.submit(self.__fn, *args, **kwargs)\n", "        return self.__executor.submit(self.__fn, *args)\n",
    "keyword arguments dropped by the bound callable")
mut("throttle-fifo-broken", ["C07"], "throttle.py",
    "            job = executor._to_submit.popleft()\n", "            job = executor._to_submit.pop()\n", "LIFO hand-over")
mut("retry-policy-attempt-zero-based", ["C05"], "retry.py",
    "        should_retry = policy.should_retry(job.attempt, job.delegate_future)\n",
    "        should_retry = policy.should_retry(job.attempt - 1, job.delegate_future)\n", "policy sees attempt numbers 0,1,2")
mut("cos-double-cancel", ["C10"], "cancel_on_shutdown.py",
    "            cancel = f.cancel()\n", "            cancel = f.cancel() or f.cancel()\n", "futures that refuse the cancel are asked twice")


def sh(cmd, cwd=None):
    return subprocess.run(cmd, shell=True, cwd=cwd, capture_output=True, text=True)


def main():
    os.makedirs(OUT, exist_ok=True)
    sh("git worktree remove --force %s" % WT, "/repo")
    r = sh("git worktree add -q --detach %s HEAD" % WT, "/repo")
    assert r.returncode == 0, r.stderr
    index = {}
    try:
        for name, targets, path, old, new, note in M:
            p = os.path.join(WT, path)
            s = open(p).read()
            if old not in s:
                print("SKIP %s: anchor not found in %s" % (name, path))
                continue
            open(p, "w").write(s.replace(old, new, 1))
            d = sh("git diff", WT).stdout
            sh("git checkout -- .", WT)
            open(os.path.join(OUT, name + ".patch"), "w").write(d)
            index[name] = {"targets": targets, "file": path, "note": note}
        json.dump(index, open(os.path.join(OUT, "index.json"), "w"), indent=1, sort_keys=True)
        print("wrote %d mutants" % len(index))
    finally:
        sh("git worktree remove --force %s" % WT, "/repo")


if __name__ == "__main__":
    main()
