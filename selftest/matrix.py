#!/usr/bin/env python3
"""Run seeded mutants against checks.

usage: selftest/matrix.py [--tier quick] [--props C03,C07 | --own | --all] [seed ids...]

For each seed: apply seeded/<id>/patch.diff (ported to the current tree; falls back to
patch.pinned.diff) to /repo, run the selected checks with --no-evidence, revert.
Results are merged into selftest/matrix.json and seeded/<id>/meta.json."""
import sys, os, json, subprocess, re, time, argparse

ROOT = os.path.dirname(os.path.dirname(os.path.abspath(__file__)))
SEEDED = os.path.join(ROOT, "seeded")


def sh(cmd, cwd=None, timeout=3600):
    p = subprocess.run(cmd, shell=True, cwd=cwd, capture_output=True, text=True, timeout=timeout)
    return p.returncode, p.stdout + p.stderr


def repo_clean():
    rc, out = sh("git status --porcelain --untracked-files=no", "/repo")
    return out.strip() == ""


WT = [None]


def apply_seed(sid):
    """Apply the seed in a scratch worktree of /repo's HEAD (so that /repo itself stays untouched
    and other runs are not disturbed); checks are pointed at it through VERIF_REPO."""
    d = os.path.join(SEEDED, sid)
    wt = "/tmp/mx-%s-%d" % (sid, os.getpid())
    sh("git worktree remove --force %s" % wt, "/repo")
    rc, out = sh("git worktree add -q --detach %s HEAD" % wt, "/repo")
    if rc != 0:
        print(out)
        return None
    WT[0] = wt
    for name in ("patch.diff", "patch.pinned.diff"):
        p = os.path.join(d, name)
        if os.path.exists(p):
            rc, out = sh("git apply %s" % p, wt)
            if rc == 0:
                return name
    revert()
    return None


def revert():
    if WT[0]:
        sh("git worktree remove --force %s" % WT[0], "/repo")
        WT[0] = None


def run_check(prop, tier):
    t0 = time.time()
    rc, out = sh("VERIF_REPO=%s ./check %s --no-evidence --tier %s" % (WT[0], prop, tier), ROOT, timeout=7200)
    mechs = re.findall(r"^\s+mechanism: (.*)$", out, re.M)
    known = re.findall(r"^KNOWN-FINDING: .*\[(.*?)\]", out, re.M)
    status = "VIOLATED" if rc == 1 else ("HELD" if rc == 0 else "INCONCLUSIVE(rc=%d)" % rc)
    incon = re.findall(r"^INCONCLUSIVE .*$", out, re.M)
    return {"status": status, "mechanisms": mechs, "known": known, "wall_s": round(time.time() - t0, 1),
            "inconclusive": incon[:1]}


def main():
    ap = argparse.ArgumentParser()
    ap.add_argument("--tier", default="quick")
    ap.add_argument("--props")
    ap.add_argument("--all", action="store_true")
    ap.add_argument("seeds", nargs="*")
    a = ap.parse_args()
    have = sorted(f[:-3].upper() for f in os.listdir(os.path.join(ROOT, "vf", "props")) if re.match(r"c\d\d\.py$", f))
    seeds = a.seeds or sorted(os.listdir(SEEDED))
    mpath = os.environ.get("MATRIX_JSON") or os.path.join(ROOT, "selftest", "matrix.json")
    matrix = json.load(open(mpath)) if os.path.exists(mpath) else {}
    for sid in seeds:
        own = sid.split("-")[0]
        if a.all:
            props = have
        elif a.props:
            props = a.props.split(",")
        else:
            props = [own] if own in have else []
        if not props:
            print("%s: no check for %s yet" % (sid, own))
            continue
        if os.path.exists(os.path.join(SEEDED, sid, "SUPERSEDED")):
            print("%s: superseded on the current tree (see NOTE.md)" % sid)
            matrix.setdefault(sid, {})["apply"] = "superseded"
            matrix[sid].pop("checks", None)
            json.dump(matrix, open(mpath, "w"), indent=1, sort_keys=True)
            continue
        which = apply_seed(sid)
        if which is None:
            print("%s: PATCH DOES NOT APPLY to current tree (needs port)" % sid)
            matrix.setdefault(sid, {})["apply"] = "needs-port"
            continue
        try:
            for p in props:
                r = run_check(p, a.tier)
                sd = os.environ.get("VERIF_SEED", "0")
                key = p + "/" + a.tier + ("" if sd == "0" else "@seed" + sd)
                matrix.setdefault(sid, {}).setdefault("checks", {})[key] = r
                matrix[sid]["apply"] = which
                print("%s  %s/%s -> %s %s (%.0fs)" % (sid, p, a.tier, r["status"], r["mechanisms"][:3], r["wall_s"]))
        finally:
            revert()
        json.dump(matrix, open(mpath, "w"), indent=1, sort_keys=True)
    return 0


if __name__ == "__main__":
    sys.exit(main())
